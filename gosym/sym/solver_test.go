package sym

import "testing"

// The solver process may die under a query (it did once, 5 s into a C02 run). The
// answers must then be those of a fresh process given the same assertions, and the
// bookkeeping (push levels, definitions, indicator literals) must stay consistent.

func restartFormulas(c *Ctx) (prefix []*Term, queries []*Term, want []Result) {
	x := c.Var("x", BV(8))
	y := c.Var("y", BV(8))
	// x > 0, y = x, x > 1, x > 2, x > 3
	prefix = []*Term{c.BvCmp(OBvUlt, c.BVC(8, 0), x), c.Eq(y, x)}
	for i := 1; i <= 3; i++ {
		prefix = append(prefix, c.BvCmp(OBvUlt, c.BVC(8, uint64(i)), x))
	}
	queries = []*Term{
		c.Eq(x, c.BVC(8, 3)),                     // unsat with x>3
		c.Eq(y, c.BVC(8, 9)),                     // sat: x=y=9
		c.Not(c.Eq(x, y)),                        // unsat
		c.BvCmp(OBvUlt, y, c.BVC(8, 200)),        // sat
		c.BvCmp(OBvUlt, x, c.BVC(8, 4)),          // unsat
		c.Eq(c.BvBin(OBvAdd, x, y), c.BVC(8, 0)), // sat: x=y=128
	}
	want = []Result{Unsat, Sat, Unsat, Sat, Unsat, Sat}
	return
}

func TestSolverRestartCheckWith(t *testing.T) {
	for _, name := range []string{"z3-new", "z3"} {
		for _, every := range []int{0, 1, 4, 5, 7, 11} {
			c := NewCtx()
			s, err := NewSolverOpt(name, c, 8000, false)
			if err != nil {
				t.Skip(err)
			}
			s.KillEvery = every
			if every == 1 {
				// every exchange dies: the query must come back unknown with an error, not panic
				s.SetPrefix(nil)
				r, _ := s.CheckWith(true, c.Eq(c.Var("x", BV(8)), c.BVC(8, 1)))
				if r != Unknown || len(s.Errors) == 0 {
					t.Fatalf("%s: permanent death: got %v errors=%v", name, r, s.Errors)
				}
				s.Close()
				continue
			}
			prefix, queries, want := restartFormulas(c)
			for round := 0; round < 4; round++ {
				for k := 0; k <= len(prefix); k++ {
					s.SetPrefix(prefix[:k])
					for i, q := range queries {
						r, m := s.CheckWith(true, q)
						exp := want[i]
						if k < len(prefix) {
							exp = -1 // only the full prefix has a fixed expectation
						}
						if exp >= 0 && r != exp {
							t.Fatalf("%s every=%d k=%d q=%d: got %v want %v (errors %v)", name, every, k, i, r, exp, s.Errors)
						}
						if r == Unknown {
							t.Fatalf("%s every=%d k=%d q=%d: unknown (errors %v)", name, every, k, i, s.Errors)
						}
						if r == Sat && k == len(prefix) {
							if m["x"].U != m["y"].U || m["x"].U <= 3 {
								t.Fatalf("%s every=%d: model %v violates the prefix", name, every, m)
							}
						}
						if len(s.stack) != k || len(s.defs) != k+1 {
							t.Fatalf("%s every=%d: stack %d defs %d after query at k=%d", name, every, len(s.stack), len(s.defs), k)
						}
					}
				}
			}
			if every > 0 && s.Restarts == 0 {
				t.Fatalf("%s every=%d: fault injection did not fire", name, every)
			}
			if len(s.Errors) != 0 {
				t.Fatalf("%s every=%d: errors %v", name, every, s.Errors)
			}
			s.Close()
		}
	}
}

func TestSolverRestartCheckAssuming(t *testing.T) {
	for _, every := range []int{0, 4, 5, 7, 11} {
		c := NewCtx()
		s, err := NewSolverOpt("z3-new", c, 8000, true)
		if err != nil {
			t.Skip(err)
		}
		s.KillEvery = every
		prefix, queries, want := restartFormulas(c)
		for round := 0; round < 4; round++ {
			for i, q := range queries {
				lits := append(append([]*Term(nil), prefix...), q)
				r, m := s.CheckAssuming(lits, true)
				if r != want[i] {
					t.Fatalf("every=%d q=%d: got %v want %v (errors %v)", every, i, r, want[i], s.Errors)
				}
				if r == Sat && (m["x"].U != m["y"].U || m["x"].U <= 3) {
					t.Fatalf("every=%d: model %v violates the prefix", every, m)
				}
				if r == Unsat {
					if s.LastCore == nil {
						t.Fatalf("every=%d q=%d: no core", every, i)
					}
					for _, l := range s.LastCore {
						found := false
						for _, x := range lits {
							found = found || x == l
						}
						if !found {
							t.Fatalf("every=%d q=%d: core literal %s not among the assumptions", every, i, l)
						}
					}
				}
			}
		}
		if every > 0 && s.Restarts == 0 {
			t.Fatalf("every=%d: fault injection did not fire", every)
		}
		if len(s.Errors) != 0 {
			t.Fatalf("every=%d: errors %v", every, s.Errors)
		}
		s.Close()
	}
}
