// Package sym: hash-consed terms over Bool / fixed-width bit-vectors / IEEE
// doubles, an evaluator under a model and an SMT-LIB2 printer.
package sym

import (
	"fmt"
	"math"
	"math/bits"
	"strconv"
	"strings"
)

type SortKind uint8

const (
	KBool SortKind = iota
	KBV
	KFP
)

type Sort struct {
	K SortKind
	W int // bit width for KBV
}

var (
	Bool = Sort{K: KBool}
	FP   = Sort{K: KFP}
)

func BV(w int) Sort { return Sort{K: KBV, W: w} }

func (s Sort) SMT() string {
	switch s.K {
	case KBool:
		return "Bool"
	case KBV:
		return fmt.Sprintf("(_ BitVec %d)", s.W)
	}
	return "(_ FloatingPoint 11 53)"
}

type Op uint8

const (
	OVar Op = iota
	OConst
	ONot
	OAnd
	OOr
	OIte
	OEq // any sort; on FP this is SMT '=' (NaN==NaN, +0 != -0)
	OBvAdd
	OBvSub
	OBvMul
	OBvUDiv
	OBvSDiv
	OBvURem
	OBvSRem
	OBvAnd
	OBvOr
	OBvXor
	OBvNot
	OBvNeg
	OBvShl
	OBvLshr
	OBvAshr
	OBvUlt
	OBvUle
	OBvSlt
	OBvSle
	OExtract // I=hi J=lo
	OZext    // to width I
	OSext    // to width I
	OFpAdd
	OFpSub
	OFpMul
	OFpDiv
	OFpNeg
	OFpAbs
	OFpLt
	OFpLe
	OFpEq // IEEE ==
	OFpIsNaN
	OFpIsInf
	OFpRound // I = rounding mode
	OFpToSBV // 64-bit RTZ; undefined outside range (guard outside)
	OFpFromSBV
	OFpFromUBV
	OFpBits // FP -> BV64 is not expressible exactly (NaN); unused
)

// rounding modes for OFpRound
const (
	RNE = iota
	RNA
	RTP
	RTN
	RTZ
)

var rmNames = []string{"RNE", "RNA", "RTP", "RTN", "RTZ"}

type Term struct {
	ID   int
	Op   Op
	Sort Sort
	Args []*Term
	Name string  // OVar
	U    uint64  // OConst: BV value, or bool (0/1), or float bits
	I, J int     // parameters
	size int     // DAG-unaware size estimate
}

type Ctx struct {
	tab   map[string]*Term
	terms []*Term
	Vars  map[string]*Term
	T, F  *Term
	keybuf []byte
}

func NewCtx() *Ctx {
	c := &Ctx{tab: map[string]*Term{}, Vars: map[string]*Term{}}
	c.T = c.mk(&Term{Op: OConst, Sort: Bool, U: 1})
	c.F = c.mk(&Term{Op: OConst, Sort: Bool, U: 0})
	return c
}

func (c *Ctx) NumTerms() int { return len(c.terms) }

func (c *Ctx) mk(t *Term) *Term {
	b := c.keybuf[:0]
	b = strconv.AppendInt(b, int64(t.Op), 10)
	b = append(b, '|')
	b = strconv.AppendInt(b, int64(t.Sort.K), 10)
	b = append(b, '|')
	b = strconv.AppendInt(b, int64(t.Sort.W), 10)
	b = append(b, '|')
	b = strconv.AppendUint(b, t.U, 16)
	b = append(b, '|')
	b = strconv.AppendInt(b, int64(t.I), 10)
	b = append(b, '|')
	b = strconv.AppendInt(b, int64(t.J), 10)
	b = append(b, '|')
	b = append(b, t.Name...)
	for _, a := range t.Args {
		b = append(b, '|')
		b = strconv.AppendInt(b, int64(a.ID), 10)
	}
	c.keybuf = b
	if x, ok := c.tab[string(b)]; ok {
		return x
	}
	t.ID = len(c.terms)
	t.size = 1
	for _, a := range t.Args {
		t.size += a.size
	}
	c.terms = append(c.terms, t)
	c.tab[string(b)] = t
	return t
}

func (c *Ctx) Var(name string, s Sort) *Term {
	if v, ok := c.Vars[name]; ok {
		if v.Sort != s {
			panic(fmt.Sprintf("sym: variable %s redeclared with different sort", name))
		}
		return v
	}
	v := c.mk(&Term{Op: OVar, Sort: s, Name: name})
	c.Vars[name] = v
	return v
}

// DecimalCases renders a non-negative integer term v (BV64, known < 10^maxDigits)
// as guarded decimal strings: for each digit count k the guard 10^(k-1) <= v < 10^k
// and k byte terms ('0' + digit). Used identically by the executor's model of
// strconv.FormatFloat on integer-valued doubles and by the reference semantics.
func (c *Ctx) DecimalCases(v *Term, maxDigits int) (guards []*Term, bytes [][]*Term) {
	v32 := c.Extract(v, 31, 0)
	pow := uint64(1)
	for k := 1; k <= maxDigits; k++ {
		lo, hi := pow, pow*10
		if k == 1 {
			lo = 0
		}
		g := c.And(c.BvCmp(OBvUle, c.BVC(32, lo), v32), c.BvCmp(OBvUlt, v32, c.BVC(32, hi)))
		var bs []*Term
		div := pow
		for j := 0; j < k; j++ {
			d := c.BvBin(OBvURem, c.BvBin(OBvUDiv, v32, c.BVC(32, div)), c.BVC(32, 10))
			bs = append(bs, c.BvBin(OBvAdd, c.Extract(d, 7, 0), c.BVC(8, '0')))
			div /= 10
		}
		guards = append(guards, g)
		bytes = append(bytes, bs)
		pow *= 10
	}
	return
}

// IntVar is the 64-bit term of an integer input known to lie in [lo,hi]. Small
// ranges are declared as 8-bit variables and extended, which keeps the
// bit-blasted problem small; the variable keeps the given name.
func (c *Ctx) IntVar(name string, lo, hi int64) *Term {
	if lo >= 0 && hi < 128 {
		return c.Zext(c.Var(name, BV(8)), 64)
	}
	if lo >= -128 && hi < 128 {
		return c.Sext(c.Var(name, BV(8)), 64)
	}
	if lo >= -(1<<31) && hi < 1<<31 {
		return c.Sext(c.Var(name, BV(32)), 64)
	}
	return c.Var(name, BV(64))
}

// IntVarValue decodes the model value of an IntVar.
func IntVarValue(v Val, lo, hi int64) int64 {
	if lo >= 0 && hi < 128 {
		return int64(v.U & 0xff)
	}
	if lo >= -128 && hi < 128 {
		return int64(int8(v.U))
	}
	if lo >= -(1<<31) && hi < 1<<31 {
		return int64(int32(v.U))
	}
	return int64(v.U)
}

// IntVarEncode encodes a value for the model of an IntVar.
func IntVarEncode(x int64, lo, hi int64) Val {
	if lo >= -128 && hi < 128 {
		return Val{uint64(x) & 0xff}
	}
	if lo >= -(1<<31) && hi < 1<<31 {
		return Val{uint64(x) & 0xffffffff}
	}
	return Val{uint64(x)}
}

func mask(w int) uint64 {
	if w >= 64 {
		return ^uint64(0)
	}
	return (uint64(1) << uint(w)) - 1
}

func (c *Ctx) BoolC(b bool) *Term {
	if b {
		return c.T
	}
	return c.F
}

func (c *Ctx) BVC(w int, v uint64) *Term {
	return c.mk(&Term{Op: OConst, Sort: BV(w), U: v & mask(w)})
}

func (c *Ctx) FPC(f float64) *Term {
	b := math.Float64bits(f)
	if f != f {
		b = 0x7ff8000000000001 // canonical NaN
	}
	return c.mk(&Term{Op: OConst, Sort: FP, U: b})
}

func (t *Term) IsConst() bool { return t.Op == OConst }
func (t *Term) IsTrue() bool  { return t.Op == OConst && t.Sort.K == KBool && t.U == 1 }
func (t *Term) IsFalse() bool { return t.Op == OConst && t.Sort.K == KBool && t.U == 0 }

// ---- constructors with light simplification ----

func (c *Ctx) Not(a *Term) *Term {
	if a.IsConst() {
		return c.BoolC(a.U == 0)
	}
	if a.Op == ONot {
		return a.Args[0]
	}
	return c.mk(&Term{Op: ONot, Sort: Bool, Args: []*Term{a}})
}

func (c *Ctx) And(as ...*Term) *Term {
	var out []*Term
	seen := map[int]bool{}
	for _, a := range as {
		if a.IsFalse() {
			return c.F
		}
		if a.IsTrue() || seen[a.ID] {
			continue
		}
		if a.Op == OAnd {
			for _, b := range a.Args {
				if !seen[b.ID] {
					seen[b.ID] = true
					out = append(out, b)
				}
			}
			continue
		}
		seen[a.ID] = true
		out = append(out, a)
	}
	for _, a := range out {
		if a.Op == ONot && seen[a.Args[0].ID] {
			return c.F
		}
	}
	switch len(out) {
	case 0:
		return c.T
	case 1:
		return out[0]
	}
	return c.mk(&Term{Op: OAnd, Sort: Bool, Args: out})
}

func (c *Ctx) Or(as ...*Term) *Term {
	var out []*Term
	seen := map[int]bool{}
	for _, a := range as {
		if a.IsTrue() {
			return c.T
		}
		if a.IsFalse() || seen[a.ID] {
			continue
		}
		if a.Op == OOr {
			for _, b := range a.Args {
				if !seen[b.ID] {
					seen[b.ID] = true
					out = append(out, b)
				}
			}
			continue
		}
		seen[a.ID] = true
		out = append(out, a)
	}
	for _, a := range out {
		if a.Op == ONot && seen[a.Args[0].ID] {
			return c.T
		}
	}
	switch len(out) {
	case 0:
		return c.F
	case 1:
		return out[0]
	}
	return c.mk(&Term{Op: OOr, Sort: Bool, Args: out})
}

func (c *Ctx) Implies(a, b *Term) *Term { return c.Or(c.Not(a), b) }
func (c *Ctx) Iff(a, b *Term) *Term     { return c.Eq(a, b) }

func (c *Ctx) Ite(cond, a, b *Term) *Term {
	if cond.IsTrue() {
		return a
	}
	if cond.IsFalse() {
		return b
	}
	if a == b {
		return a
	}
	if a.Sort.K == KBool {
		if a.IsTrue() && b.IsFalse() {
			return cond
		}
		if a.IsFalse() && b.IsTrue() {
			return c.Not(cond)
		}
	}
	return c.mk(&Term{Op: OIte, Sort: a.Sort, Args: []*Term{cond, a, b}})
}

func (c *Ctx) Eq(a, b *Term) *Term {
	if a.Sort != b.Sort {
		panic(fmt.Sprintf("sym.Eq: sort mismatch %v %v", a.Sort, b.Sort))
	}
	if a == b {
		return c.T
	}
	if a.IsConst() && b.IsConst() {
		return c.BoolC(a.U == b.U)
	}
	if a.Sort.K == KBool {
		if a.IsTrue() {
			return b
		}
		if b.IsTrue() {
			return a
		}
		if a.IsFalse() {
			return c.Not(b)
		}
		if b.IsFalse() {
			return c.Not(a)
		}
	}
	if a.ID > b.ID {
		a, b = b, a
	}
	return c.mk(&Term{Op: OEq, Sort: Bool, Args: []*Term{a, b}})
}

func (c *Ctx) bin(op Op, s Sort, a, b *Term) *Term {
	t := &Term{Op: op, Sort: s, Args: []*Term{a, b}}
	if a.IsConst() && b.IsConst() {
		return c.constOf(s, evalOp(t, []Val{constVal(a), constVal(b)}))
	}
	return c.mk(t)
}

func (c *Ctx) un(op Op, s Sort, a *Term, i, j int) *Term {
	t := &Term{Op: op, Sort: s, Args: []*Term{a}, I: i, J: j}
	if a.IsConst() {
		return c.constOf(s, evalOp(t, []Val{constVal(a)}))
	}
	return c.mk(t)
}

func (c *Ctx) constOf(s Sort, v Val) *Term {
	switch s.K {
	case KBool:
		return c.BoolC(v.U != 0)
	case KBV:
		return c.BVC(s.W, v.U)
	}
	return c.FPC(math.Float64frombits(v.U))
}

func (c *Ctx) BvBin(op Op, a, b *Term) *Term {
	if a.Sort != b.Sort {
		panic(fmt.Sprintf("sym.BvBin: sort mismatch %v %v (op %d)", a.Sort, b.Sort, op))
	}
	switch op {
	case OBvAdd:
		if b.IsConst() && b.U == 0 {
			return a
		}
		if a.IsConst() && a.U == 0 {
			return b
		}
	case OBvSub:
		if b.IsConst() && b.U == 0 {
			return a
		}
	}
	return c.bin(op, a.Sort, a, b)
}

func (c *Ctx) BvCmp(op Op, a, b *Term) *Term {
	if a.Sort != b.Sort {
		panic(fmt.Sprintf("sym.BvCmp: sort mismatch %v %v", a.Sort, b.Sort))
	}
	return c.bin(op, Bool, a, b)
}

func (c *Ctx) BvNot(a *Term) *Term { return c.un(OBvNot, a.Sort, a, 0, 0) }
func (c *Ctx) BvNeg(a *Term) *Term { return c.un(OBvNeg, a.Sort, a, 0, 0) }

func (c *Ctx) Extract(a *Term, hi, lo int) *Term {
	if lo == 0 && hi == a.Sort.W-1 {
		return a
	}
	return c.un(OExtract, BV(hi-lo+1), a, hi, lo)
}

func (c *Ctx) Zext(a *Term, w int) *Term {
	if w == a.Sort.W {
		return a
	}
	if w < a.Sort.W {
		return c.Extract(a, w-1, 0)
	}
	return c.un(OZext, BV(w), a, w, 0)
}

func (c *Ctx) Sext(a *Term, w int) *Term {
	if w == a.Sort.W {
		return a
	}
	if w < a.Sort.W {
		return c.Extract(a, w-1, 0)
	}
	return c.un(OSext, BV(w), a, w, 0)
}

func (c *Ctx) FpBin(op Op, a, b *Term) *Term { return c.bin(op, FP, a, b) }
// asSmallInt: t is the exact FP image of a BV64 integer that fits 32 bits
// (the extension of a narrower term, or an integral constant below 2^31).
func (c *Ctx) asSmallInt(t *Term) (*Term, bool) {
	if t.Op == OFpFromSBV && t.Args[0].Sort.W == 64 {
		in := t.Args[0]
		if (in.Op == OSext || in.Op == OZext) && in.Args[0].Sort.W <= 32 {
			return in, true
		}
		if in.Op == OConst && int64(in.U) > -(1<<31) && int64(in.U) < 1<<31 {
			return in, true
		}
	}
	if t.Op == OConst && t.Sort.K == KFP {
		f := math.Float64frombits(t.U)
		if f == math.Trunc(f) && math.Abs(f) < 1<<31 && !(f == 0 && math.Signbit(f)) {
			return c.BVC(64, uint64(int64(f))), true
		}
	}
	return nil, false
}

func (c *Ctx) FpCmp(op Op, a, b *Term) *Term {
	// comparisons of exactly converted small integers are integer comparisons
	if ia, ok := c.asSmallInt(a); ok {
		if ib, ok := c.asSmallInt(b); ok && !(a.IsConst() && b.IsConst()) {
			switch op {
			case OFpLt:
				return c.BvCmp(OBvSlt, ia, ib)
			case OFpLe:
				return c.BvCmp(OBvSle, ia, ib)
			case OFpEq:
				return c.Eq(ia, ib)
			}
		}
	}
	return c.bin(op, Bool, a, b)
}
func (c *Ctx) FpNeg(a *Term) *Term           { return c.un(OFpNeg, FP, a, 0, 0) }
func (c *Ctx) FpAbs(a *Term) *Term {
	if i, ok := c.asSmallInt(a); ok && !a.IsConst() {
		// |to_fp(i)| = to_fp(|i|) for 32-bit values
		return c.FpFromSBV(c.Ite(c.BvCmp(OBvSlt, i, c.BVC(64, 0)), c.BvNeg(i), i))
	}
	return c.un(OFpAbs, FP, a, 0, 0)
}
func (c *Ctx) FpIsNaN(a *Term) *Term         { return c.un(OFpIsNaN, Bool, a, 0, 0) }
func (c *Ctx) FpIsInf(a *Term) *Term         { return c.un(OFpIsInf, Bool, a, 0, 0) }
func (c *Ctx) FpRound(a *Term, mode int) *Term {
	if a.Op == OFpFromSBV || a.Op == OFpFromUBV {
		return a // an integer converted to FP is already integral
	}
	return c.un(OFpRound, FP, a, mode, 0)
}
func (c *Ctx) FpToSBV(a *Term) *Term {
	// to_sbv(to_fp(x)) = x when x is the extension of at most 32 bits (exactly representable)
	if a.Op == OFpFromSBV && a.Args[0].Sort.W == 64 && (a.Args[0].Op == OSext || a.Args[0].Op == OZext) && a.Args[0].Args[0].Sort.W <= 32 {
		return a.Args[0]
	}
	return c.un(OFpToSBV, BV(64), a, 0, 0)
}
func (c *Ctx) FpFromSBV(a *Term) *Term { return c.un(OFpFromSBV, FP, a, 0, 0) }
func (c *Ctx) FpFromUBV(a *Term) *Term { return c.un(OFpFromUBV, FP, a, 0, 0) }

// ---- evaluation ----

// Val is a concrete value of any sort: Bool as U∈{0,1}, BV as U, FP as bits.
type Val struct{ U uint64 }

func BoolVal(b bool) Val {
	if b {
		return Val{1}
	}
	return Val{0}
}
func FPVal(f float64) Val { return Val{math.Float64bits(f)} }
func (v Val) F() float64  { return math.Float64frombits(v.U) }
func (v Val) B() bool     { return v.U != 0 }

func constVal(t *Term) Val { return Val{t.U} }

type Model map[string]Val

// Eval evaluates t under m; variables absent from m evaluate to zero.
func Eval(t *Term, m Model, memo map[int]Val) Val {
	if t.Op == OConst {
		return Val{t.U}
	}
	if v, ok := memo[t.ID]; ok {
		return v
	}
	var r Val
	switch t.Op {
	case OVar:
		r = m[t.Name]
		if t.Sort.K == KBV {
			r.U &= mask(t.Sort.W)
		}
	case OAnd:
		r = Val{1}
		for _, a := range t.Args {
			if Eval(a, m, memo).U == 0 {
				r = Val{0}
				break
			}
		}
	case OOr:
		r = Val{0}
		for _, a := range t.Args {
			if Eval(a, m, memo).U != 0 {
				r = Val{1}
				break
			}
		}
	case OIte:
		if Eval(t.Args[0], m, memo).U != 0 {
			r = Eval(t.Args[1], m, memo)
		} else {
			r = Eval(t.Args[2], m, memo)
		}
	default:
		vs := make([]Val, len(t.Args))
		for i, a := range t.Args {
			vs[i] = Eval(a, m, memo)
		}
		r = evalOp(t, vs)
	}
	memo[t.ID] = r
	return r
}

func sx(v uint64, w int) int64 {
	if w >= 64 {
		return int64(v)
	}
	sh := uint(64 - w)
	return int64(v<<sh) >> sh
}

func canonF(f float64) uint64 {
	if f != f {
		return 0x7ff8000000000001
	}
	return math.Float64bits(f)
}

// RoundMode applies an SMT rounding-to-integral mode to f.
func RoundMode(f float64, mode int) float64 {
	switch mode {
	case RNE:
		return math.RoundToEven(f)
	case RNA:
		return math.Round(f)
	case RTP:
		return math.Ceil(f)
	case RTN:
		return math.Floor(f)
	}
	return math.Trunc(f)
}

func evalOp(t *Term, a []Val) Val {
	w := 0
	if len(t.Args) > 0 {
		w = t.Args[0].Sort.W
	}
	m := mask(w)
	b2 := func(b bool) Val { return BoolVal(b) }
	switch t.Op {
	case ONot:
		return b2(a[0].U == 0)
	case OEq:
		if t.Args[0].Sort.K == KFP {
			return b2(canonF(a[0].F()) == canonF(a[1].F()))
		}
		return b2(a[0].U == a[1].U)
	case OBvAdd:
		return Val{(a[0].U + a[1].U) & m}
	case OBvSub:
		return Val{(a[0].U - a[1].U) & m}
	case OBvMul:
		return Val{(a[0].U * a[1].U) & m}
	case OBvUDiv:
		if a[1].U == 0 {
			return Val{m}
		}
		return Val{a[0].U / a[1].U}
	case OBvURem:
		if a[1].U == 0 {
			return a[0]
		}
		return Val{a[0].U % a[1].U}
	case OBvSDiv:
		x, y := sx(a[0].U, w), sx(a[1].U, w)
		if y == 0 {
			if x >= 0 {
				return Val{m}
			}
			return Val{1}
		}
		if y == -1 {
			return Val{uint64(-x) & m}
		}
		return Val{uint64(x/y) & m}
	case OBvSRem:
		x, y := sx(a[0].U, w), sx(a[1].U, w)
		if y == 0 {
			return a[0]
		}
		if y == -1 {
			return Val{0}
		}
		return Val{uint64(x%y) & m}
	case OBvAnd:
		return Val{a[0].U & a[1].U}
	case OBvOr:
		return Val{a[0].U | a[1].U}
	case OBvXor:
		return Val{a[0].U ^ a[1].U}
	case OBvNot:
		return Val{^a[0].U & m}
	case OBvNeg:
		return Val{(-a[0].U) & m}
	case OBvShl:
		if a[1].U >= uint64(w) {
			return Val{0}
		}
		return Val{(a[0].U << a[1].U) & m}
	case OBvLshr:
		if a[1].U >= uint64(w) {
			return Val{0}
		}
		return Val{a[0].U >> a[1].U}
	case OBvAshr:
		x := sx(a[0].U, w)
		s := a[1].U
		if s >= uint64(w) {
			s = uint64(w - 1)
		}
		return Val{uint64(x>>s) & m}
	case OBvUlt:
		return b2(a[0].U < a[1].U)
	case OBvUle:
		return b2(a[0].U <= a[1].U)
	case OBvSlt:
		return b2(sx(a[0].U, w) < sx(a[1].U, w))
	case OBvSle:
		return b2(sx(a[0].U, w) <= sx(a[1].U, w))
	case OExtract:
		return Val{(a[0].U >> uint(t.J)) & mask(t.I-t.J+1)}
	case OZext:
		return a[0]
	case OSext:
		return Val{uint64(sx(a[0].U, w)) & mask(t.I)}
	case OFpAdd:
		return Val{canonF(a[0].F() + a[1].F())}
	case OFpSub:
		return Val{canonF(a[0].F() - a[1].F())}
	case OFpMul:
		return Val{canonF(a[0].F() * a[1].F())}
	case OFpDiv:
		return Val{canonF(a[0].F() / a[1].F())}
	case OFpNeg:
		return Val{canonF(-a[0].F())}
	case OFpAbs:
		return Val{canonF(math.Abs(a[0].F()))}
	case OFpLt:
		return b2(a[0].F() < a[1].F())
	case OFpLe:
		return b2(a[0].F() <= a[1].F())
	case OFpEq:
		return b2(a[0].F() == a[1].F())
	case OFpIsNaN:
		return b2(a[0].F() != a[0].F())
	case OFpIsInf:
		return b2(math.IsInf(a[0].F(), 0))
	case OFpRound:
		return Val{canonF(RoundMode(a[0].F(), t.I))}
	case OFpToSBV:
		f := a[0].F()
		if f != f || f >= 9223372036854775808.0 || f < -9223372036854775808.0 {
			return Val{0x8000000000000000} // unspecified in SMT-LIB; guarded by users
		}
		return Val{uint64(int64(f))}
	case OFpFromSBV:
		return Val{canonF(float64(sx(a[0].U, w)))}
	case OFpFromUBV:
		return Val{canonF(float64(a[0].U))}
	}
	panic(fmt.Sprintf("sym.evalOp: op %d", t.Op))
}

var _ = bits.Len

// ---- SMT-LIB2 printing ----

func smtName(n string) string { return "|" + n + "|" }

func bvLit(w int, v uint64) string {
	if w%4 == 0 {
		return fmt.Sprintf("#x%0*x", w/4, v&mask(w))
	}
	return fmt.Sprintf("#b%0*b", w, v&mask(w))
}

func fpLit(bitsv uint64) string {
	f := math.Float64frombits(bitsv)
	if f != f {
		return "(_ NaN 11 53)"
	}
	return fmt.Sprintf("(fp #b%b #b%011b #x%013x)", bitsv>>63, (bitsv>>52)&0x7ff, bitsv&((1<<52)-1))
}

var opSMT = map[Op]string{
	ONot: "not", OAnd: "and", OOr: "or", OIte: "ite", OEq: "=",
	OBvAdd: "bvadd", OBvSub: "bvsub", OBvMul: "bvmul", OBvUDiv: "bvudiv", OBvSDiv: "bvsdiv",
	OBvURem: "bvurem", OBvSRem: "bvsrem", OBvAnd: "bvand", OBvOr: "bvor", OBvXor: "bvxor",
	OBvNot: "bvnot", OBvNeg: "bvneg", OBvShl: "bvshl", OBvLshr: "bvlshr", OBvAshr: "bvashr",
	OBvUlt: "bvult", OBvUle: "bvule", OBvSlt: "bvslt", OBvSle: "bvsle",
	OFpNeg: "fp.neg", OFpAbs: "fp.abs", OFpLt: "fp.lt", OFpLe: "fp.leq", OFpEq: "fp.eq",
	OFpIsNaN: "fp.isNaN", OFpIsInf: "fp.isInfinite",
}

// Ref returns how a term is referred to inside other terms: leaves inline,
// inner nodes by their definition name.
func (t *Term) Ref() string {
	switch t.Op {
	case OVar:
		return smtName(t.Name)
	case OConst:
		switch t.Sort.K {
		case KBool:
			if t.U != 0 {
				return "true"
			}
			return "false"
		case KBV:
			return bvLit(t.Sort.W, t.U)
		}
		return fpLit(t.U)
	}
	return fmt.Sprintf("t%d", t.ID)
}

// Body prints the defining expression of an inner node in terms of Ref()s.
func (t *Term) Body() string {
	args := make([]string, len(t.Args))
	for i, a := range t.Args {
		args[i] = a.Ref()
	}
	j := strings.Join(args, " ")
	switch t.Op {
	case OExtract:
		return fmt.Sprintf("((_ extract %d %d) %s)", t.I, t.J, j)
	case OZext:
		return fmt.Sprintf("((_ zero_extend %d) %s)", t.I-t.Args[0].Sort.W, j)
	case OSext:
		return fmt.Sprintf("((_ sign_extend %d) %s)", t.I-t.Args[0].Sort.W, j)
	case OFpAdd:
		return "(fp.add RNE " + j + ")"
	case OFpSub:
		return "(fp.sub RNE " + j + ")"
	case OFpMul:
		return "(fp.mul RNE " + j + ")"
	case OFpDiv:
		return "(fp.div RNE " + j + ")"
	case OFpRound:
		return fmt.Sprintf("(fp.roundToIntegral %s %s)", rmNames[t.I], j)
	case OFpToSBV:
		return "((_ fp.to_sbv 64) RTZ " + j + ")"
	case OFpFromSBV:
		return "((_ to_fp 11 53) RNE " + j + ")"
	case OFpFromUBV:
		return "((_ to_fp_unsigned 11 53) RNE " + j + ")"
	}
	if s, ok := opSMT[t.Op]; ok {
		return "(" + s + " " + j + ")"
	}
	panic(fmt.Sprintf("sym.Body: op %d", t.Op))
}

// String renders a term as a self-contained expression (debugging, samples).
func (t *Term) String() string {
	if t.Op == OVar || t.Op == OConst {
		r := t.Ref()
		return strings.Trim(r, "|")
	}
	if t.size > 60 {
		return fmt.Sprintf("<t%d size %d>", t.ID, t.size)
	}
	args := make([]string, len(t.Args))
	for i, a := range t.Args {
		args[i] = a.String()
	}
	name := opSMT[t.Op]
	if name == "" {
		name = fmt.Sprintf("op%d", t.Op)
	}
	return "(" + name + " " + strings.Join(args, " ") + ")"
}
