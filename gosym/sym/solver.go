package sym

import (
	"bufio"
	"fmt"
	"io"
	"math"
	"os/exec"
	"strconv"
	"strings"
	"time"
)

type Result int

const (
	Unsat Result = iota
	Sat
	Unknown
)

func (r Result) String() string { return [...]string{"unsat", "sat", "unknown"}[r] }

// Solver is one long-lived SMT solver process fed through stdin.
type Solver struct {
	Name    string
	args    []string
	cmd     *exec.Cmd
	in      io.WriteCloser
	out     *bufio.Reader
	defined map[int]bool
	defs    [][]int // term IDs defined at each push level (index = level)
	litDone map[int]bool
	ctx     *Ctx
	seq     int

	stack     []*Term // asserted prefix, one push level per literal

	gen      int // incremented every time the process is (re)started: detects a death inside a query
	Restarts int // solver processes that died inside a query and were replaced

	// KillEvery > 0 kills the solver process before every KillEvery-th exchange
	// (fault injection for the restart path: GOSYM_FAULT_KILL_EVERY, solver_test.go).
	KillEvery int

	CoreFail  int
	Queries   int
	NSat      int
	NUnsat    int
	NUnknown  int
	Errors    []string
	SolveTime time.Duration
	TimeoutMs int
	Log       io.Writer // optional transcript
	Cores     bool      // name prefix assertions and fetch unsat cores
	LastCore  []*Term   // literals of the stack in the last unsat core (with Cores)
}

// SolverCommand returns the argv for a named back end.
func SolverCommand(name string, timeoutMs int) []string {
	switch name {
	case "z3", "z3-new":
		return []string{name, "-in", fmt.Sprintf("-t:%d", timeoutMs)}
	case "cvc5":
		return []string{"cvc5", "--incremental", "--lang=smt2", "--produce-models", fmt.Sprintf("--tlimit-per=%d", timeoutMs)}
	}
	panic("unknown solver " + name)
}

func NewSolver(name string, ctx *Ctx, timeoutMs int) (*Solver, error) {
	return NewSolverOpt(name, ctx, timeoutMs, false)
}

func NewSolverOpt(name string, ctx *Ctx, timeoutMs int, cores bool) (*Solver, error) {
	s := &Solver{Name: name, args: SolverCommand(name, timeoutMs), ctx: ctx, TimeoutMs: timeoutMs, Cores: cores}
	if err := s.start(); err != nil {
		return nil, err
	}
	return s, nil
}

func (s *Solver) start() error {
	s.gen++
	s.defined = map[int]bool{}
	s.defs = [][]int{nil}
	s.litDone = nil
	s.stack = nil
	s.cmd = nil
	// until a process is up, writes go nowhere and reads report end of input
	s.in = nopWriteCloser{}
	s.out = bufio.NewReader(strings.NewReader(""))
	cmd := exec.Command(s.args[0], s.args[1:]...)
	in, err := cmd.StdinPipe()
	if err != nil {
		return err
	}
	out, err := cmd.StdoutPipe()
	if err != nil {
		in.Close()
		return err
	}
	cmd.Stderr = nil
	if err := cmd.Start(); err != nil {
		in.Close()
		out.Close()
		return err
	}
	s.cmd = cmd
	s.in = in
	s.out = bufio.NewReaderSize(out, 1<<16)
	s.send("(set-option :print-success false)\n(set-option :produce-models true)\n")
	if s.Cores {
		s.send("(set-option :produce-unsat-cores true)\n")
	}
	s.send("(set-logic ALL)\n")
	return nil
}

type nopWriteCloser struct{}

func (nopWriteCloser) Write(p []byte) (int, error) { return len(p), nil }
func (nopWriteCloser) Close() error                { return nil }

// Rebind switches the solver to a fresh term context (definitions are reset).
func (s *Solver) Rebind(ctx *Ctx) {
	s.ctx = ctx
	s.Close()
	if err := s.start(); err != nil {
		s.Errors = append(s.Errors, "restart: "+err.Error())
	}
}

func (s *Solver) Close() {
	if s.cmd != nil {
		s.in.Close()
		s.cmd.Process.Kill()
		s.cmd.Wait()
		s.cmd = nil
	}
}

func (s *Solver) send(txt string) {
	if s.Log != nil {
		io.WriteString(s.Log, txt)
	}
	io.WriteString(s.in, txt)
}

// roundtrip sends txt followed by an echo marker and returns all output lines before the marker.
func (s *Solver) roundtrip(txt string) []string {
	s.seq++
	if s.KillEvery > 0 && s.seq%s.KillEvery == 0 && s.cmd != nil {
		s.cmd.Process.Kill()
		s.cmd.Wait()
	}
	marker := fmt.Sprintf("<<done-%d>>", s.seq)
	s.send(txt + "(echo \"" + marker + "\")\n")
	var lines []string
	for {
		line, err := s.out.ReadString('\n')
		if err != nil {
			// The solver process is gone (crash, kill, failed start). Nothing of its state
			// survives: start a fresh one with an empty assertion stack. The callers see
			// the changed generation, rebuild what they need and ask again; only a query
			// that keeps killing the solver is reported as an error.
			lines = append(lines, "(error \"solver died: "+err.Error()+"\")")
			s.Restarts++
			s.Close()
			if err := s.start(); err != nil {
				s.Errors = append(s.Errors, "restart: "+err.Error())
			}
			return lines
		}
		line = strings.TrimRight(line, "\r\n")
		if strings.Contains(line, marker) {
			return lines
		}
		if s.Log != nil {
			io.WriteString(s.Log, "; -> "+line+"\n")
		}
		lines = append(lines, line)
	}
}

func (s *Solver) define(t *Term, sb *strings.Builder, vars map[string]*Term, seen map[int]bool) {
	if seen[t.ID] {
		return
	}
	seen[t.ID] = true
	if t.Op == OConst {
		return
	}
	if t.Op == OVar {
		if vars != nil {
			vars[t.Name] = t
		}
		if !s.defined[t.ID] {
			s.defined[t.ID] = true
			s.defs[len(s.defs)-1] = append(s.defs[len(s.defs)-1], t.ID)
			fmt.Fprintf(sb, "(declare-const %s %s)\n", smtName(t.Name), t.Sort.SMT())
		}
		return
	}
	for _, a := range t.Args {
		s.define(a, sb, vars, seen)
	}
	if !s.defined[t.ID] {
		s.defined[t.ID] = true
		s.defs[len(s.defs)-1] = append(s.defs[len(s.defs)-1], t.ID)
		fmt.Fprintf(sb, "(define-fun t%d () %s %s)\n", t.ID, t.Sort.SMT(), t.Body())
	}
}

// Check decides the conjunction of lits from an empty assertion stack.
func (s *Solver) Check(lits []*Term, wantModel bool) (Result, Model) {
	s.SetPrefix(nil)
	return s.CheckWith(wantModel, lits...)
}

// ---- parsing of (get-value ...) output ----

type sexp struct {
	atom string
	list []*sexp
}

func parseSexp(s string, pos *int) (*sexp, error) {
	for *pos < len(s) && (s[*pos] == ' ' || s[*pos] == '\n' || s[*pos] == '\t') {
		*pos++
	}
	if *pos >= len(s) {
		return nil, fmt.Errorf("unexpected end")
	}
	if s[*pos] == '(' {
		*pos++
		n := &sexp{list: []*sexp{}}
		for {
			for *pos < len(s) && (s[*pos] == ' ' || s[*pos] == '\n' || s[*pos] == '\t') {
				*pos++
			}
			if *pos >= len(s) {
				return nil, fmt.Errorf("unbalanced")
			}
			if s[*pos] == ')' {
				*pos++
				return n, nil
			}
			c, err := parseSexp(s, pos)
			if err != nil {
				return nil, err
			}
			n.list = append(n.list, c)
		}
	}
	st := *pos
	if s[*pos] == '|' {
		*pos++
		for *pos < len(s) && s[*pos] != '|' {
			*pos++
		}
		*pos++
		return &sexp{atom: s[st+1 : *pos-1]}, nil
	}
	for *pos < len(s) && s[*pos] != ' ' && s[*pos] != ')' && s[*pos] != '(' && s[*pos] != '\n' {
		*pos++
	}
	return &sexp{atom: s[st:*pos]}, nil
}

func bvAtom(a string) (uint64, bool) {
	if strings.HasPrefix(a, "#x") {
		v, err := strconv.ParseUint(a[2:], 16, 64)
		return v, err == nil
	}
	if strings.HasPrefix(a, "#b") {
		v, err := strconv.ParseUint(a[2:], 2, 64)
		return v, err == nil
	}
	return 0, false
}

func parseFP(e *sexp) (uint64, error) {
	if e.atom != "" {
		return 0, fmt.Errorf("fp atom %q", e.atom)
	}
	l := e.list
	if len(l) == 4 && l[0].atom == "fp" {
		sg, ok1 := bvAtom(l[1].atom)
		ex, ok2 := bvAtom(l[2].atom)
		mn, ok3 := bvAtom(l[3].atom)
		if !ok1 || !ok2 || !ok3 {
			return 0, fmt.Errorf("fp literal")
		}
		return sg<<63 | ex<<52 | mn, nil
	}
	if len(l) == 4 && l[0].atom == "_" {
		switch l[1].atom {
		case "NaN":
			return 0x7ff8000000000001, nil
		case "+zero":
			return 0, nil
		case "-zero":
			return 1 << 63, nil
		case "+oo":
			return math.Float64bits(math.Inf(1)), nil
		case "-oo":
			return math.Float64bits(math.Inf(-1)), nil
		}
	}
	return 0, fmt.Errorf("fp form")
}

func parseValues(out string, vars map[string]*Term, m Model) error {
	pos := 0
	e, err := parseSexp(out, &pos)
	if err != nil {
		return err
	}
	for _, pair := range e.list {
		if len(pair.list) != 2 {
			return fmt.Errorf("pair")
		}
		name := pair.list[0].atom
		v, ok := vars[name]
		if !ok {
			return fmt.Errorf("unknown var %q", name)
		}
		val := pair.list[1]
		switch v.Sort.K {
		case KBool:
			m[name] = BoolVal(val.atom == "true")
		case KBV:
			u, ok := bvAtom(val.atom)
			if !ok {
				// (_ bvN w)
				if len(val.list) == 3 && strings.HasPrefix(val.list[1].atom, "bv") {
					x, err := strconv.ParseUint(val.list[1].atom[2:], 10, 64)
					if err != nil {
						return err
					}
					u = x
				} else {
					return fmt.Errorf("bv value %v", val)
				}
			}
			m[name] = Val{u}
		case KFP:
			u, err := parseFP(val)
			if err != nil {
				return err
			}
			m[name] = Val{u}
		}
	}
	return nil
}


// SetPrefix makes the solver's assertion stack equal to lits (one push level
// per literal), reusing the common prefix with what is already asserted.
func (s *Solver) SetPrefix(lits []*Term) {
	k := 0
	for k < len(lits) && k < len(s.stack) && lits[k] == s.stack[k] {
		k++
	}
	var sb strings.Builder
	if n := len(s.stack) - k; n > 0 {
		fmt.Fprintf(&sb, "(pop %d)\n", n)
		s.stack = s.stack[:k]
		for lvl := k + 1; lvl < len(s.defs); lvl++ {
			for _, id := range s.defs[lvl] {
				delete(s.defined, id)
			}
		}
		s.defs = s.defs[:k+1]
	}
	for _, l := range lits[k:] {
		// definitions made here live at the current level and die with it
		s.define(l, &sb, nil, map[int]bool{})
		if s.Cores {
			fmt.Fprintf(&sb, "(push 1)\n(assert (! %s :named a%d))\n", l.Ref(), len(s.stack))
		} else {
			fmt.Fprintf(&sb, "(push 1)\n(assert %s)\n", l.Ref())
		}
		s.stack = append(s.stack, l)
		s.defs = append(s.defs, nil)
	}
	if sb.Len() > 0 {
		s.send(sb.String())
	}
}

// maxAttempts bounds how often one query is re-issued after the solver process died under it.
const maxAttempts = 3

// CheckWith decides stack ∧ extra... ; vars of the whole stack are reported in the model.
// If the solver process dies during the query it is replaced, the prefix is asserted
// again and the same query is asked again (the answer is then the fresh process's
// answer to the identical assertions); after maxAttempts deaths the answer is Unknown
// and an error is recorded.
func (s *Solver) CheckWith(wantModel bool, extra ...*Term) (Result, Model) {
	start := time.Now()
	defer func() { s.SolveTime += time.Since(start) }()
	s.Queries++
	prefix := append([]*Term(nil), s.stack...)
	res, model := Unknown, Model(nil)
	for attempt := 1; ; attempt++ {
		g := s.gen
		res, model = s.checkWithOnce(g, wantModel, extra)
		if s.gen == g {
			break
		}
		res, model = Unknown, nil
		if attempt >= maxAttempts {
			s.Errors = append(s.Errors, fmt.Sprintf("solver process died on %d successive attempts of one query", attempt))
			// leave the stack as the caller set it
			s.SetPrefix(prefix)
			break
		}
		s.SetPrefix(prefix)
	}
	switch res {
	case Sat:
		s.NSat++
	case Unsat:
		s.NUnsat++
	default:
		s.NUnknown++
	}
	return res, model
}

// checkWithOnce is one attempt of CheckWith on the process of generation g. When the
// process dies (s.gen != g afterwards) all solver-side state has already been reset by
// start() and nothing more may be popped or undefined here.
func (s *Solver) checkWithOnce(g int, wantModel bool, extra []*Term) (Result, Model) {
	var sb strings.Builder
	vars := map[string]*Term{}
	seen := map[int]bool{}
	sb.WriteString("(push 1)\n")
	s.defs = append(s.defs, nil)
	for _, l := range extra {
		s.define(l, &sb, vars, seen)
	}
	if wantModel {
		for _, l := range s.stack {
			collectVars(l, vars, seen)
		}
	}
	for _, l := range extra {
		fmt.Fprintf(&sb, "(assert %s)\n", l.Ref())
	}
	sb.WriteString("(check-sat)\n")
	lines := s.roundtrip(sb.String())
	if s.gen != g {
		return Unknown, nil
	}
	res := Unknown
	bad := false
	for _, l := range lines {
		switch {
		case strings.HasPrefix(l, "(error") || strings.Contains(l, "error"):
			bad = true
			s.Errors = append(s.Errors, l)
		case l == "sat":
			res = Sat
		case l == "unsat":
			res = Unsat
		}
	}
	if bad {
		res = Unknown
	}
	s.LastCore = nil
	if res == Unsat && s.Cores {
		out := strings.Join(s.roundtrip("(get-unsat-core)\n"), " ")
		if s.gen != g {
			return Unknown, nil
		}
		out = strings.Trim(strings.TrimSpace(out), "()")
		ok := true
		for _, f := range strings.Fields(out) {
			var k int
			if _, err := fmt.Sscanf(f, "a%d", &k); err != nil || k < 0 || k >= len(s.stack) {
				ok = false
				break
			}
			s.LastCore = append(s.LastCore, s.stack[k])
		}
		if !ok {
			s.LastCore = nil
			s.CoreFail++
		} else if s.LastCore == nil {
			s.LastCore = []*Term{}
		}
	}
	var model Model
	if res == Sat && wantModel {
		model = Model{}
		if len(vars) > 0 {
			var q strings.Builder
			q.WriteString("(get-value (")
			for n := range vars {
				q.WriteString(smtName(n))
				q.WriteByte(' ')
			}
			q.WriteString("))\n")
			out := strings.Join(s.roundtrip(q.String()), " ")
			if s.gen != g {
				return Unknown, nil
			}
			if err := parseValues(out, vars, model); err != nil {
				s.Errors = append(s.Errors, "get-value: "+err.Error()+" in "+out)
				res = Unknown
			}
		}
	}
	s.roundtrip("(pop 1)\n")
	if s.gen != g {
		return Unknown, nil // the caller asks again on the fresh process
	}
	for _, id := range s.defs[len(s.defs)-1] {
		delete(s.defined, id)
	}
	s.defs = s.defs[:len(s.defs)-1]
	return res, model
}

func collectVars(t *Term, vars map[string]*Term, seen map[int]bool) {
	if seen[t.ID] {
		return
	}
	seen[t.ID] = true
	if t.Op == OVar {
		vars[t.Name] = t
		return
	}
	for _, a := range t.Args {
		collectVars(a, vars, seen)
	}
}


// ---- assumption-literal mode: everything lives at level 0, each query is a
// check-sat-assuming over indicator constants (no push/pop). ----

func (s *Solver) ensureLit(l *Term, sb *strings.Builder) string {
	name := fmt.Sprintf("L%d", l.ID)
	if s.litDone == nil {
		s.litDone = map[int]bool{}
	}
	if !s.litDone[l.ID] {
		s.litDone[l.ID] = true
		s.define(l, sb, nil, map[int]bool{})
		fmt.Fprintf(sb, "(declare-const %s Bool)\n(assert (=> %s %s))\n", name, name, l.Ref())
	}
	return name
}

// CheckAssuming decides the conjunction of lits. With an unsat answer (and
// Cores) LastCore holds the subset of lits reported by the solver. A solver process
// that dies during the query is replaced and the query is asked again (see CheckWith).
func (s *Solver) CheckAssuming(lits []*Term, wantModel bool) (Result, Model) {
	start := time.Now()
	defer func() { s.SolveTime += time.Since(start) }()
	s.Queries++
	if len(s.stack) != 0 {
		panic("CheckAssuming with a non-empty assertion stack")
	}
	res, model := Unknown, Model(nil)
	for attempt := 1; ; attempt++ {
		g := s.gen
		res, model = s.checkAssumingOnce(g, lits, wantModel)
		if s.gen == g {
			break
		}
		// start() dropped every indicator literal together with the process
		res, model = Unknown, nil
		s.LastCore = nil
		if attempt >= maxAttempts {
			s.Errors = append(s.Errors, fmt.Sprintf("solver process died on %d successive attempts of one query", attempt))
			break
		}
	}
	switch res {
	case Sat:
		s.NSat++
	case Unsat:
		s.NUnsat++
	default:
		s.NUnknown++
	}
	return res, model
}

func (s *Solver) checkAssumingOnce(g int, lits []*Term, wantModel bool) (Result, Model) {
	var sb strings.Builder
	names := make([]string, 0, len(lits))
	for _, l := range lits {
		if l.IsTrue() {
			continue
		}
		names = append(names, s.ensureLit(l, &sb))
	}
	sb.WriteString("(check-sat-assuming (")
	sb.WriteString(strings.Join(names, " "))
	sb.WriteString("))\n")
	lines := s.roundtrip(sb.String())
	if s.gen != g {
		return Unknown, nil
	}
	res := Unknown
	bad := false
	for _, l := range lines {
		switch {
		case strings.HasPrefix(l, "(error") || strings.Contains(l, "error"):
			bad = true
			s.Errors = append(s.Errors, l)
		case l == "sat":
			res = Sat
		case l == "unsat":
			res = Unsat
		}
	}
	if bad {
		res = Unknown
	}
	s.LastCore = nil
	if res == Unsat && s.Cores {
		out := strings.Join(s.roundtrip("(get-unsat-core)\n"), " ")
		if s.gen != g {
			return Unknown, nil
		}
		out = strings.Trim(strings.TrimSpace(out), "()")
		byName := map[string]*Term{}
		for _, l := range lits {
			byName[fmt.Sprintf("L%d", l.ID)] = l
		}
		ok := true
		core := []*Term{}
		for _, f := range strings.Fields(out) {
			t, in := byName[f]
			if !in {
				ok = false
				break
			}
			core = append(core, t)
		}
		if ok {
			s.LastCore = core
		} else {
			s.CoreFail++
		}
	}
	var model Model
	if res == Sat && wantModel {
		model = Model{}
		vars := map[string]*Term{}
		seen := map[int]bool{}
		for _, l := range lits {
			collectVars(l, vars, seen)
		}
		if len(vars) > 0 {
			var q strings.Builder
			q.WriteString("(get-value (")
			for n := range vars {
				q.WriteString(smtName(n))
				q.WriteByte(' ')
			}
			q.WriteString("))\n")
			out := strings.Join(s.roundtrip(q.String()), " ")
			if s.gen != g {
				return Unknown, nil
			}
			if err := parseValues(out, vars, model); err != nil {
				s.Errors = append(s.Errors, "get-value: "+err.Error()+" in "+out)
				res = Unknown
			}
		}
	}
	return res, model
}
