package vm

import (
	"fmt"
	"strings"

	"golang.org/x/tools/go/ssa"
)

// Frame monitor (C04/C05): after vFreeze every cell reachable from the frozen
// value or from a package-level variable of the package under analysis is
// "shared". Each store into a shared cell is logged.

type frameEvent struct {
	Site    string
	Changed bool // the stored value differs from the old one
	Locked  bool // a sync lock was held
	What    string
}

type frameState struct {
	cells  map[*value]bool
	maps   map[*mapv]bool
	events []frameEvent
	locks  int // read or write locks held
	wlocks int // write locks held
	owner  map[*value]string // description of the owning object (for reports)

	protected      map[*value]bool
	protMaps       map[*mapv]bool
	unlockedReads  []string
	unlockedWrites []string
}

func (m *Machine) frame() *frameState {
	fs, _ := m.Scratch["frame"].(*frameState)
	return fs
}

type reachWalker struct {
	fs   *frameState
	seen map[*value]bool
	segs map[*value]bool // first element of visited backing arrays
}

func (w *reachWalker) cell(p *value, what string) {
	if p == nil || w.seen[p] {
		return
	}
	w.seen[p] = true
	w.fs.cells[p] = true
	w.fs.owner[p] = what
	w.val(*p, what)
}

func (w *reachWalker) val(v value, what string) {
	switch v := v.(type) {
	case *value:
		w.cell(v, what)
	case structure:
		for i := range v {
			w.cell(&v[i], what)
		}
	case array:
		for i := range v {
			w.cell(&v[i], what)
		}
	case []value:
		full := v[:cap(v)]
		for i := range full {
			w.cell(&full[i], what+"[]")
		}
	case iface:
		name := what
		if v.t != nil {
			name = v.t.String()
			if i := strings.LastIndex(name, "/"); i >= 0 {
				name = name[i+1:]
			}
		}
		w.val(v.v, name)
	case *closure:
		if v != nil {
			for i := range v.Env {
				w.val(v.Env[i], "closure "+v.Fn.Name())
			}
		}
	case *mapv:
		if v != nil && !w.fs.maps[v] {
			w.fs.maps[v] = true
			for _, k := range v.keys {
				w.val(v.m[k], what+"{}")
			}
		}
	case tuple:
		for i := range v {
			w.val(v[i], what)
		}
	}
}

func shallowSame(a, b value) bool {
	defer func() { recover() }()
	switch x := a.(type) {
	case []value:
		y, ok := b.([]value)
		if !ok || len(x) != len(y) || cap(x) != cap(y) {
			return false
		}
		if len(x) == 0 && cap(x) == 0 {
			return (x == nil) == (y == nil)
		}
		if cap(x) > 0 {
			return &x[:1][0] == &y[:1][0]
		}
		return true
	case structure:
		y, ok := b.(structure)
		if !ok || len(x) != len(y) {
			return false
		}
		for i := range x {
			if !shallowSame(x[i], y[i]) {
				return false
			}
		}
		return true
	case array:
		y, ok := b.(array)
		if !ok || len(x) != len(y) {
			return false
		}
		for i := range x {
			if !shallowSame(x[i], y[i]) {
				return false
			}
		}
		return true
	case iface:
		y, ok := b.(iface)
		if !ok || !sameType(x.t, y.t) {
			return false
		}
		return shallowSame(x.v, y.v)
	case *symv:
		y, ok := b.(*symv)
		return ok && x.t == y.t
	case *symstr:
		return false
	case *closure:
		y, ok := b.(*closure)
		return ok && x == y
	}
	return a == b
}

func registerFrame(m *Machine) {
	e := m.ext
	// vFreeze(root interface{}): start the shared-state epoch
	e[hpkg+"vFreeze"] = func(m *Machine, fr *frame, a []value) value {
		fs := &frameState{cells: map[*value]bool{}, maps: map[*mapv]bool{}, owner: map[*value]string{}}
		w := &reachWalker{fs: fs, seen: map[*value]bool{}}
		w.val(a[0], "expr")
		for _, mem := range m.MainPkg.Members {
			g, ok := mem.(*ssa.Global)
			if !ok {
				continue
			}
			n := g.Name()
			// harness state, the regexp cache (own lock discipline, C16) and the
			// builder pool (synchronised hand-off by contract) are not part of the frame
			if strings.HasPrefix(n, "v") || strings.HasPrefix(n, "init$") || n == "RegexpCache" || n == "builderPool" {
				continue
			}
			w.cell(m.global(g), "global "+n)
		}
		m.Scratch["frame"] = fs
		m.Hooks.OnStore = func(m *Machine, addr *value, old, nw value, fr *frame) {
			fs := m.frame()
			if fs == nil || !fs.cells[addr] {
				return
			}
			fs.events = append(fs.events, frameEvent{Site: m.where(), Changed: !shallowSame(old, nw), Locked: fs.wlocks > 0, What: fs.owner[addr]})
		}
		m.Hooks.OnMap = func(m *Machine, mp *mapv, fr *frame) {
			fs := m.frame()
			if fs == nil || !fs.maps[mp] {
				return
			}
			fs.events = append(fs.events, frameEvent{Site: m.where(), Changed: true, Locked: fs.wlocks > 0, What: "map"})
		}
		m.Scratch["lockHook"] = func(kind string, mu *value, fr *frame) {
			fs := m.frame()
			if fs == nil {
				return
			}
			// a read lock admits other readers: it protects reads, not writes
			switch kind {
			case "Lock":
				fs.locks++
				fs.wlocks++
			case "Unlock":
				fs.locks--
				fs.wlocks--
			case "RLock":
				fs.locks++
			default:
				fs.locks--
			}
		}
		return nil
	}
	// vProtect(p interface{}): the cell p points to (and a map stored in it) may only be
	// read or written while a lock is held
	e[hpkg+"vProtect"] = func(m *Machine, fr *frame, a []value) value {
		fs := m.frame()
		if fs == nil {
			abort("vProtect before vFreeze")
		}
		if fs.protected == nil {
			fs.protected = map[*value]bool{}
			fs.protMaps = map[*mapv]bool{}
		}
		p, ok := a[0].(iface).v.(*value)
		if !ok || p == nil {
			abort("vProtect expects a non-nil pointer")
		}
		fs.protected[p] = true
		prevStore, prevMap := m.Hooks.OnStore, m.Hooks.OnMap
		m.Hooks.OnStore = func(m *Machine, addr *value, old, nw value, fr *frame) {
			if prevStore != nil {
				prevStore(m, addr, old, nw, fr)
			}
			if fs := m.frame(); fs != nil && fs.protected[addr] && fs.wlocks == 0 {
				fs.unlockedWrites = append(fs.unlockedWrites, m.where())
			}
		}
		m.Hooks.OnMap = func(m *Machine, mp *mapv, fr *frame) {
			if prevMap != nil {
				prevMap(m, mp, fr)
			}
			fs := m.frame()
			if fs == nil || fs.wlocks > 0 {
				return
			}
			for c := range fs.protected {
				if cur, ok := (*c).(*mapv); ok && cur == mp {
					fs.unlockedWrites = append(fs.unlockedWrites, m.where())
				}
			}
		}
		m.Hooks.OnLoad = func(m *Machine, addr *value) {
			fs := m.frame()
			if fs == nil || !fs.protected[addr] || fs.locks > 0 {
				return
			}
			fs.unlockedReads = append(fs.unlockedReads, m.where())
		}
		return nil
	}
	e[hpkg+"vUnlockedWrites"] = func(m *Machine, fr *frame, a []value) value {
		fs := m.frame()
		if fs == nil {
			return ""
		}
		return strings.Join(fs.unlockedWrites, "; ")
	}
	e[hpkg+"vUnlockedReads"] = func(m *Machine, fr *frame, a []value) value {
		fs := m.frame()
		if fs == nil {
			return ""
		}
		return strings.Join(fs.unlockedReads, "; ")
	}
	// vFrameWrites(mode int) int: number of logged stores; mode 0: value-changing
	// stores, mode 1: all stores made without a lock held
	e[hpkg+"vFrameWrites"] = func(m *Machine, fr *frame, a []value) value {
		fs := m.frame()
		if fs == nil {
			return int64(0)
		}
		mode := asInt(a[0])
		n := 0
		for _, ev := range fs.events {
			if mode == 0 && ev.Changed {
				n++
			}
			if mode == 1 && !ev.Locked {
				n++
			}
		}
		return int64(n)
	}
	e[hpkg+"vFrameReport"] = func(m *Machine, fr *frame, a []value) value {
		fs := m.frame()
		if fs == nil {
			return ""
		}
		seen := map[string]bool{}
		var parts []string
		for _, ev := range fs.events {
			s := fmt.Sprintf("%s <- %s changed=%v locked=%v", ev.What, ev.Site, ev.Changed, ev.Locked)
			if !seen[s] {
				seen[s] = true
				parts = append(parts, s)
			}
		}
		return strings.Join(parts, "; ")
	}
}
