package vm

import (
	"fmt"
	"go/constant"
	"go/token"
	"go/types"
	"math"
	"unicode/utf8"

	"golang.org/x/tools/go/ssa"

	"gosym/sym"
)

func isHash(v value) bool { _, ok := v.(*hashv); return ok }

// ---- symbolic helpers ----

func isSym(v value) bool {
	switch v.(type) {
	case *symv, *symstr:
		return true
	}
	return false
}

// termOf returns the term of a scalar of static type t.
func (m *Machine) termOf(v value, t types.Type) *sym.Term {
	if s, ok := v.(*symv); ok {
		return s.t
	}
	if k, ok := intKindOf(t); ok {
		return m.Ctx.BVC(k.w, bitsOf(v))
	}
	switch v := v.(type) {
	case bool:
		return m.Ctx.BoolC(v)
	case float64:
		return m.Ctx.FPC(v)
	case int64:
		return m.Ctx.BVC(64, uint64(v))
	case uint64:
		return m.Ctx.BVC(64, v)
	}
	panic(fmt.Sprintf("termOf: %T", v))
}

// mkSym pairs a concrete value with its term unless the term is constant.
func mkSym(c value, t *sym.Term) value {
	if t.IsConst() {
		return c
	}
	return &symv{c: c, t: t}
}

// byteTerm returns the term of byte i of a string value.
func (m *Machine) byteTerm(s value, i int) *sym.Term {
	switch s := s.(type) {
	case string:
		return m.Ctx.BVC(8, uint64(s[i]))
	case *symstr:
		if s.b[i] != nil {
			return s.b[i]
		}
		return m.Ctx.BVC(8, uint64(s.s[i]))
	}
	panic("byteTerm")
}

func mkStr(s string, b []*sym.Term) value {
	for _, t := range b {
		if t != nil {
			return &symstr{s: s, b: b}
		}
	}
	return s
}

func strBytes(v value) (string, []*sym.Term) {
	switch v := v.(type) {
	case string:
		return v, nil
	case *symstr:
		return v.s, v.b
	}
	panic(fmt.Sprintf("strBytes: %T", v))
}

// concretizeStr pins every symbolic byte of s to its concrete value (recorded as decisions).
func (m *Machine) concretizeStr(v value) string {
	ss, ok := v.(*symstr)
	if !ok {
		return v.(string)
	}
	for i, t := range ss.b {
		if t != nil {
			m.concretizeBV(t, uint64(ss.s[i]))
		}
	}
	return ss.s
}

// concretize pins a symbolic scalar to its concrete value. The decisions are
// recorded in a canonical order that does not depend on the value chosen, so
// flipping them enumerates every other feasible value exactly once.
func (m *Machine) concretize(v value) value {
	s, ok := v.(*symv)
	if !ok {
		return v
	}
	switch s.t.Sort.K {
	case sym.KBool:
		m.decide(s.t, s.c.(bool), "concretize")
	case sym.KBV:
		m.concretizeBV(s.t, bitsOf(s.c))
	case sym.KFP:
		// no canonical enumeration of doubles: the value is pinned and the
		// exploration is reported as not exhaustive
		m.AssumeFixed(m.Ctx.Eq(s.t, m.Ctx.FPC(s.c.(float64))), "concretize-float")
		m.Lossy = append(m.Lossy, "float concretised at "+m.where())
	}
	return s.c
}

// concretizeBV pins bit-vector term t to value c.
func (m *Machine) concretizeBV(t *sym.Term, c uint64) {
	ctx := m.Ctx
	w := t.Sort.W
	c &= maskW(w)
	if name := varOf(t); name != "" {
		if dom, ok := m.Domains[name]; ok && dom[1]-dom[0] < 64 {
			m.concretizeRange(t, c, dom[0], dom[1])
			return
		}
	}
	for i := w - 1; i >= 0; i-- {
		bit := ctx.Eq(ctx.Extract(t, i, i), ctx.BVC(1, 1))
		m.decide(bit, (c>>uint(i))&1 == 1, "concretize-bit@"+m.where())
	}
}

// varOf: the input variable a term directly stands for (possibly extended).
func varOf(t *sym.Term) string {
	if t.Op == sym.OVar {
		return t.Name
	}
	if (t.Op == sym.OZext || t.Op == sym.OSext) && t.Args[0].Op == sym.OVar {
		return t.Args[0].Name
	}
	return ""
}

// concretizeRange pins t (known to lie in [lo,hi]) to c by the chain t==lo?, t==lo+1?, ...
func (m *Machine) concretizeRange(t *sym.Term, c uint64, lo, hi int64) {
	ctx := m.Ctx
	w := t.Sort.W
	for v := lo; v <= hi; v++ {
		hit := uint64(v)&maskW(w) == c
		if v == hi {
			// last value of the domain: implied, no decision needed
			return
		}
		m.decide(ctx.Eq(t, ctx.BVC(w, uint64(v))), hit, "concretize-value")
		if hit {
			return
		}
	}
}

// pinDeep fixes every symbolic component of v to its concrete value WITHOUT
// enumerating alternatives. Only used where the value merely feeds message
// text that no property observes (fmt.Errorf arguments).
func (m *Machine) pinDeep(v value) value {
	switch v := v.(type) {
	case *symv:
		switch v.t.Sort.K {
		case sym.KBool:
			if v.c.(bool) {
				m.AssumeFixed(v.t, "pin")
			} else {
				m.AssumeFixed(m.Ctx.Not(v.t), "pin")
			}
		case sym.KBV:
			m.AssumeFixed(m.Ctx.Eq(v.t, m.Ctx.BVC(v.t.Sort.W, bitsOf(v.c))), "pin")
		case sym.KFP:
			m.AssumeFixed(m.Ctx.Eq(v.t, m.Ctx.FPC(v.c.(float64))), "pin")
		}
		return v.c
	case *symstr:
		for i, t := range v.b {
			if t != nil {
				m.AssumeFixed(m.Ctx.Eq(t, m.Ctx.BVC(8, uint64(v.s[i]))), "pin")
			}
		}
		return v.s
	case iface:
		return iface{v.t, m.pinDeep(v.v)}
	}
	return v
}

// concretizeDeep pins every symbolic component reachable by value (not through pointers).
func (m *Machine) concretizeDeep(v value) value {
	switch v := v.(type) {
	case *symv:
		return m.concretize(v)
	case *symstr:
		return m.concretizeStr(v)
	case iface:
		return iface{v.t, m.concretizeDeep(v.v)}
	case structure:
		c := make(structure, len(v))
		for i := range v {
			c[i] = m.concretizeDeep(v[i])
		}
		return c
	case array:
		c := make(array, len(v))
		for i := range v {
			c[i] = m.concretizeDeep(v[i])
		}
		return c
	}
	return v
}

// truth records a branch decision on a bool value and returns the side taken.
func (m *Machine) truth(v value, why string) bool {
	switch v := v.(type) {
	case bool:
		return v
	case *symv:
		b := v.c.(bool)
		m.decide(v.t, b, why)
		return b
	}
	panic(fmt.Sprintf("truth: %T", v))
}

// ---- constants ----

func constValue(c *ssa.Const) value {
	if c.Value == nil {
		return zero(c.Type()) // nil or zero value of aggregate
	}
	if t, ok := c.Type().Underlying().(*types.Basic); ok {
		switch t.Kind() {
		case types.Bool, types.UntypedBool:
			return constant.BoolVal(c.Value)
		case types.Int, types.UntypedInt, types.Int8, types.Int16, types.Int32, types.UntypedRune, types.Int64:
			k, _ := intKindOf(t)
			return normInt(k, uint64(c.Int64()))
		case types.Uint, types.Uint8, types.Uint16, types.Uint32, types.Uint64, types.Uintptr:
			k, _ := intKindOf(t)
			return normInt(k, c.Uint64())
		case types.Float32:
			return float64(float32(c.Float64()))
		case types.Float64, types.UntypedFloat:
			return c.Float64()
		case types.Complex64, types.Complex128:
			return c.Complex128()
		case types.String, types.UntypedString:
			if c.Value.Kind() == constant.String {
				return constant.StringVal(c.Value)
			}
			return string(rune(c.Int64()))
		}
	}
	panic(fmt.Sprintf("constValue: %s", c))
}

// ---- run-time faults ----

func (m *Machine) fault(msg string) {
	panic(&targetPanic{runtime: true, msg: msg, site: m.where()})
}

// ---- binary operators ----

var intOps = map[token.Token]sym.Op{
	token.ADD: sym.OBvAdd, token.SUB: sym.OBvSub, token.MUL: sym.OBvMul,
	token.AND: sym.OBvAnd, token.OR: sym.OBvOr, token.XOR: sym.OBvXor,
}

func intConc(op token.Token, k ikind, x, y uint64) uint64 {
	switch op {
	case token.ADD:
		return x + y
	case token.SUB:
		return x - y
	case token.MUL:
		return x * y
	case token.AND:
		return x & y
	case token.OR:
		return x | y
	case token.XOR:
		return x ^ y
	case token.AND_NOT:
		return x &^ y
	case token.QUO:
		if k.signed {
			a, b := int64(x), int64(y)
			if b == -1 {
				return uint64(-a)
			}
			return uint64(a / b)
		}
		return x / y
	case token.REM:
		if k.signed {
			a, b := int64(x), int64(y)
			if b == -1 {
				return 0
			}
			return uint64(a % b)
		}
		return x % y
	}
	panic("intConc " + op.String())
}

func cmpInt(op token.Token, k ikind, x, y uint64) bool {
	if k.signed {
		a, b := int64(x), int64(y)
		switch op {
		case token.EQL:
			return a == b
		case token.NEQ:
			return a != b
		case token.LSS:
			return a < b
		case token.LEQ:
			return a <= b
		case token.GTR:
			return a > b
		case token.GEQ:
			return a >= b
		}
	}
	switch op {
	case token.EQL:
		return x == y
	case token.NEQ:
		return x != y
	case token.LSS:
		return x < y
	case token.LEQ:
		return x <= y
	case token.GTR:
		return x > y
	case token.GEQ:
		return x >= y
	}
	panic("cmpInt")
}

func isCmp(op token.Token) bool {
	switch op {
	case token.EQL, token.NEQ, token.LSS, token.LEQ, token.GTR, token.GEQ:
		return true
	}
	return false
}

func (m *Machine) cmpIntTerm(op token.Token, k ikind, a, b *sym.Term) *sym.Term {
	c := m.Ctx
	switch op {
	case token.EQL:
		return c.Eq(a, b)
	case token.NEQ:
		return c.Not(c.Eq(a, b))
	}
	lt, le := sym.OBvUlt, sym.OBvUle
	if k.signed {
		lt, le = sym.OBvSlt, sym.OBvSle
	}
	switch op {
	case token.LSS:
		return c.BvCmp(lt, a, b)
	case token.LEQ:
		return c.BvCmp(le, a, b)
	case token.GTR:
		return c.BvCmp(lt, b, a)
	case token.GEQ:
		return c.BvCmp(le, b, a)
	}
	panic("cmpIntTerm")
}

func cmpFloat(op token.Token, x, y float64) bool {
	switch op {
	case token.EQL:
		return x == y
	case token.NEQ:
		return x != y
	case token.LSS:
		return x < y
	case token.LEQ:
		return x <= y
	case token.GTR:
		return x > y
	case token.GEQ:
		return x >= y
	}
	panic("cmpFloat")
}

func (m *Machine) cmpFloatTerm(op token.Token, a, b *sym.Term) *sym.Term {
	c := m.Ctx
	switch op {
	case token.EQL:
		return c.FpCmp(sym.OFpEq, a, b)
	case token.NEQ:
		return c.Not(c.FpCmp(sym.OFpEq, a, b))
	case token.LSS:
		return c.FpCmp(sym.OFpLt, a, b)
	case token.LEQ:
		return c.FpCmp(sym.OFpLe, a, b)
	case token.GTR:
		return c.FpCmp(sym.OFpLt, b, a)
	case token.GEQ:
		return c.FpCmp(sym.OFpLe, b, a)
	}
	panic("cmpFloatTerm")
}

func cmpStr(op token.Token, x, y string) bool {
	switch op {
	case token.EQL:
		return x == y
	case token.NEQ:
		return x != y
	case token.LSS:
		return x < y
	case token.LEQ:
		return x <= y
	case token.GTR:
		return x > y
	case token.GEQ:
		return x >= y
	}
	panic("cmpStr")
}

// strEqTerm: equality of two strings of known concrete lengths.
func (m *Machine) strEqTerm(x, y value) *sym.Term {
	xs, _ := strBytes(x)
	ys, _ := strBytes(y)
	if len(xs) != len(ys) {
		return m.Ctx.F
	}
	var conj []*sym.Term
	for i := range xs {
		conj = append(conj, m.Ctx.Eq(m.byteTerm(x, i), m.byteTerm(y, i)))
	}
	return m.Ctx.And(conj...)
}

// strLtTerm: lexicographic x < y (orEq: x <= y).
func (m *Machine) strLtTerm(x, y value, orEq bool) *sym.Term {
	xs, _ := strBytes(x)
	ys, _ := strBytes(y)
	c := m.Ctx
	n := len(xs)
	if len(ys) < n {
		n = len(ys)
	}
	// result when the common prefix is equal
	var res *sym.Term
	if len(xs) < len(ys) {
		res = c.T
	} else if len(xs) == len(ys) {
		res = c.BoolC(orEq)
	} else {
		res = c.F
	}
	for i := n - 1; i >= 0; i-- {
		a, b := m.byteTerm(x, i), m.byteTerm(y, i)
		res = c.Ite(c.Eq(a, b), res, c.BvCmp(sym.OBvUlt, a, b))
	}
	return res
}

func (m *Machine) binop(op token.Token, t types.Type, x, y value) value {
	// integers
	if k, ok := intKindOf(t); ok {
		return m.intBinop(op, k, t, x, y)
	}
	if isFloat(t) {
		xc, yc := conc(x).(float64), conc(y).(float64)
		if bf := basicOf(t); bf.Kind() == types.Float32 {
			abort("float32 arithmetic not supported")
		}
		if !isSym(x) && !isSym(y) {
			if isCmp(op) {
				return cmpFloat(op, xc, yc)
			}
			switch op {
			case token.ADD:
				return xc + yc
			case token.SUB:
				return xc - yc
			case token.MUL:
				return xc * yc
			case token.QUO:
				return xc / yc
			}
			panic("float binop " + op.String())
		}
		a, b := m.termOf(x, t), m.termOf(y, t)
		if isCmp(op) {
			return mkSym(cmpFloat(op, xc, yc), m.cmpFloatTerm(op, a, b))
		}
		switch op {
		case token.ADD:
			return mkSym(xc+yc, m.Ctx.FpBin(sym.OFpAdd, a, b))
		case token.SUB:
			return mkSym(xc-yc, m.Ctx.FpBin(sym.OFpSub, a, b))
		case token.MUL:
			return mkSym(xc*yc, m.Ctx.FpBin(sym.OFpMul, a, b))
		case token.QUO:
			return mkSym(xc/yc, m.Ctx.FpBin(sym.OFpDiv, a, b))
		}
		panic("float binop " + op.String())
	}
	if isString(t) {
		xs, xb := strBytes(x)
		ys, yb := strBytes(y)
		if op == token.ADD {
			if xb == nil && yb == nil {
				return xs + ys
			}
			b := make([]*sym.Term, len(xs)+len(ys))
			copy(b, xb)
			copy(b[len(xs):], yb)
			return mkStr(xs+ys, b)
		}
		r := cmpStr(op, xs, ys)
		if xb == nil && yb == nil {
			return r
		}
		c := m.Ctx
		var tm *sym.Term
		switch op {
		case token.EQL:
			tm = m.strEqTerm(x, y)
		case token.NEQ:
			tm = c.Not(m.strEqTerm(x, y))
		case token.LSS:
			tm = m.strLtTerm(x, y, false)
		case token.LEQ:
			tm = m.strLtTerm(x, y, true)
		case token.GTR:
			tm = m.strLtTerm(y, x, false)
		case token.GEQ:
			tm = m.strLtTerm(y, x, true)
		}
		return mkSym(r, tm)
	}
	if isBool(t) {
		xc, yc := conc(x).(bool), conc(y).(bool)
		var r bool
		switch op {
		case token.EQL:
			r = xc == yc
		case token.NEQ:
			r = xc != yc
		default:
			panic("bool binop " + op.String())
		}
		if !isSym(x) && !isSym(y) {
			return r
		}
		tm := m.Ctx.Eq(m.termOf(x, t), m.termOf(y, t))
		if op == token.NEQ {
			tm = m.Ctx.Not(tm)
		}
		return mkSym(r, tm)
	}
	// everything else: == and != only
	switch op {
	case token.EQL:
		return m.equals(t, x, y)
	case token.NEQ:
		return m.notv(m.equals(t, x, y))
	}
	panic(fmt.Sprintf("binop %s on %s", op, t))
}

func (m *Machine) notv(v value) value {
	switch v := v.(type) {
	case bool:
		return !v
	case *symv:
		return mkSym(!v.c.(bool), m.Ctx.Not(v.t))
	}
	panic("notv")
}

// hashEq: equality of two (possibly abstract) hash values.
func (m *Machine) hashEq(x, y value) value {
	hx, okx := x.(*hashv)
	hy, oky := y.(*hashv)
	if !okx || !oky {
		abort("comparison of an abstract hash with a plain integer")
	}
	return mkSym(hx.s == hy.s, m.strEqTerm(mkStr(hx.s, hx.b), mkStr(hy.s, hy.b)))
}

func (m *Machine) intBinop(op token.Token, k ikind, t types.Type, x, y value) value {
	if _, ok := x.(*hashv); ok || isHash(y) {
		switch op {
		case token.EQL:
			return m.hashEq(x, y)
		case token.NEQ:
			return m.notv(m.hashEq(x, y))
		}
		abort("arithmetic on an abstract hash value")
	}
	if op == token.SHL || op == token.SHR {
		// count may have a different type; it is concretised when symbolic
		yc := m.concretize(y)
		var cnt uint64
		switch c := yc.(type) {
		case int64:
			if c < 0 {
				m.fault("negative shift amount")
			}
			cnt = uint64(c)
		case uint64:
			cnt = c
		}
		xb := bitsOf(x)
		var r uint64
		if op == token.SHL {
			if cnt < 64 {
				r = xb << cnt
			}
		} else if k.signed {
			s := cnt
			if s > 63 {
				s = 63
			}
			r = uint64(int64(xb) >> s)
		} else if cnt < 64 {
			r = (xb & maskW(k.w)) >> cnt
		}
		rc := normInt(k, r)
		if xs, ok := x.(*symv); ok {
			cc := cnt
			if cc > uint64(k.w) {
				cc = uint64(k.w)
			}
			ct := m.Ctx.BVC(k.w, cc)
			o := sym.OBvShl
			if op == token.SHR {
				o = sym.OBvLshr
				if k.signed {
					o = sym.OBvAshr
				}
			}
			return mkSym(rc, m.Ctx.BvBin(o, xs.t, ct))
		}
		return rc
	}
	xb, yb := bitsOf(x), bitsOf(y)
	symbolic := isSym(x) || isSym(y)
	if isCmp(op) {
		r := cmpInt(op, k, xb, yb)
		if !symbolic {
			return r
		}
		return mkSym(r, m.cmpIntTerm(op, k, m.termOf(x, t), m.termOf(y, t)))
	}
	if op == token.QUO || op == token.REM {
		if ys, ok := y.(*symv); ok {
			z := m.Ctx.Eq(ys.t, m.Ctx.BVC(k.w, 0))
			m.decide(z, yb&maskW(k.w) == 0, "div-zero-check")
		}
		if yb&maskW(k.w) == 0 {
			m.fault("integer divide by zero")
		}
	}
	r := normInt(k, intConc(op, k, bitsOf(normInt(k, xb)), bitsOf(normInt(k, yb))))
	if !symbolic {
		return r
	}
	a, b := m.termOf(x, t), m.termOf(y, t)
	var tm *sym.Term
	switch op {
	case token.AND_NOT:
		tm = m.Ctx.BvBin(sym.OBvAnd, a, m.Ctx.BvNot(b))
	case token.QUO:
		if k.signed {
			tm = m.Ctx.BvBin(sym.OBvSDiv, a, b)
		} else {
			tm = m.Ctx.BvBin(sym.OBvUDiv, a, b)
		}
	case token.REM:
		if k.signed {
			tm = m.Ctx.BvBin(sym.OBvSRem, a, b)
		} else {
			tm = m.Ctx.BvBin(sym.OBvURem, a, b)
		}
	default:
		tm = m.Ctx.BvBin(intOps[op], a, b)
	}
	return mkSym(r, tm)
}

// equals implements Go == for non-basic static types (pointers, interfaces,
// structs, arrays, channels, funcs vs nil ...). Result may be symbolic.
func (m *Machine) equals(t types.Type, x, y value) value {
	switch tt := t.Underlying().(type) {
	case *types.Basic:
		if tt.Kind() == types.UntypedNil {
			return true
		}
		return m.binop(token.EQL, t, x, y)
	case *types.Pointer, *types.Chan:
		return x == y
	case *types.Interface:
		xi, yi := x.(iface), y.(iface)
		if xi.t == nil || yi.t == nil {
			return xi.t == nil && yi.t == nil
		}
		if !sameType(xi.t, yi.t) {
			return false
		}
		return m.equals(xi.t, xi.v, yi.v)
	case *types.Struct:
		xs, ys := x.(structure), y.(structure)
		var res value = true
		for i := range xs {
			if tt.Field(i).Name() == "_" {
				continue
			}
			res = m.andv(res, m.equals(tt.Field(i).Type(), xs[i], ys[i]))
		}
		return res
	case *types.Array:
		xs, ys := x.(array), y.(array)
		var res value = true
		for i := range xs {
			res = m.andv(res, m.equals(tt.Elem(), xs[i], ys[i]))
		}
		return res
	case *types.Slice:
		// only comparison with nil is legal
		return x.([]value) == nil && y.([]value) == nil
	case *types.Map:
		return x.(*mapv) == nil && y.(*mapv) == nil
	case *types.Signature:
		return isNilFunc(x) && isNilFunc(y)
	}
	panic(fmt.Sprintf("equals: %s", t))
}

func isNilFunc(v value) bool {
	switch v := v.(type) {
	case *ssa.Function:
		return v == nil
	case *closure:
		return v == nil
	case *ssa.Builtin:
		return v == nil
	}
	return false
}

func (m *Machine) andv(a, b value) value {
	ab, aok := a.(bool)
	bb, bok := b.(bool)
	if aok && bok {
		return ab && bb
	}
	if aok {
		if !ab {
			return false
		}
		return b
	}
	if bok {
		if !bb {
			return false
		}
		return a
	}
	as, bs := a.(*symv), b.(*symv)
	return mkSym(as.c.(bool) && bs.c.(bool), m.Ctx.And(as.t, bs.t))
}

// ---- unary operators ----

func (m *Machine) unop(instr *ssa.UnOp, x value) value {
	switch instr.Op {
	case token.MUL: // load
		p := x.(*value)
		if p == nil {
			m.fault("nil pointer dereference")
		}
		if m.Hooks.OnLoad != nil {
			m.Hooks.OnLoad(m, p)
		}
		return load(p)
	case token.NOT:
		return m.notv(x)
	case token.SUB:
		t := instr.X.Type()
		if k, ok := intKindOf(t); ok {
			r := normInt(k, -bitsOf(x))
			if s, ok := x.(*symv); ok {
				return mkSym(r, m.Ctx.BvNeg(s.t))
			}
			return r
		}
		if isFloat(t) {
			if s, ok := x.(*symv); ok {
				return mkSym(-s.c.(float64), m.Ctx.FpNeg(s.t))
			}
			return -x.(float64)
		}
	case token.XOR:
		t := instr.X.Type()
		if k, ok := intKindOf(t); ok {
			r := normInt(k, ^bitsOf(x))
			if s, ok := x.(*symv); ok {
				return mkSym(r, m.Ctx.BvNot(s.t))
			}
			return r
		}
	case token.ARROW:
		abort("channel receive not supported")
	}
	panic(fmt.Sprintf("unop %s on %T", instr.Op, x))
}

// ---- conversions ----

// FloatToInt64 is Go's amd64 float64->int64 conversion (cvttsd2si).
func FloatToInt64(f float64) int64 {
	if f != f || f >= 9223372036854775808.0 || f < -9223372036854775808.0 {
		return math.MinInt64
	}
	return int64(f)
}

func (m *Machine) conv(tdst, tsrc types.Type, x value) value {
	ud, us := tdst.Underlying(), tsrc.Underlying()
	// pointer/unsafe, named<->named of identical underlying etc.
	switch us.(type) {
	case *types.Pointer, *types.Struct, *types.Signature, *types.Map, *types.Chan, *types.Array, *types.Interface:
		return x
	case *types.Slice:
		// []byte -> string, []rune -> string
		if isString(ud) {
			sl := x.([]value)
			et := us.(*types.Slice).Elem()
			if k, _ := intKindOf(et); k.w == 8 {
				bs := make([]byte, len(sl))
				tb := make([]*sym.Term, len(sl))
				for i, e := range sl {
					bs[i] = byte(bitsOf(e))
					if s, ok := e.(*symv); ok {
						tb[i] = s.t
					}
				}
				return mkStr(string(bs), tb)
			}
			// []rune
			var out []byte
			var tb []*sym.Term
			for _, e := range sl {
				r := rune(asInt(e))
				if s, ok := e.(*symv); ok {
					ascii := m.Ctx.BvCmp(sym.OBvUlt, s.t, m.Ctx.BVC(32, 0x80))
					if !m.truth(mkSym(r >= 0 && r < 0x80, ascii), "rune-ascii") {
						abort("symbolic non-ASCII rune in []rune->string")
					}
					out = append(out, byte(r))
					tb = append(tb, m.Ctx.Extract(s.t, 7, 0))
					continue
				}
				n := len(out)
				out = utf8.AppendRune(out, r)
				for len(tb) < len(out) {
					tb = append(tb, nil)
				}
				_ = n
			}
			return mkStr(string(out), tb)
		}
		return x
	}
	if bs, ok := us.(*types.Basic); ok {
		if bs.Kind() == types.UnsafePointer {
			return x
		}
		// string -> []byte / []rune
		if bs.Info()&types.IsString != 0 {
			if sl, ok := ud.(*types.Slice); ok {
				s, b := strBytes(x)
				if k, _ := intKindOf(sl.Elem()); k.w == 8 {
					out := make([]value, len(s))
					for i := 0; i < len(s); i++ {
						if b != nil && b[i] != nil {
							out[i] = &symv{c: uint64(s[i]), t: b[i]}
						} else {
							out[i] = uint64(s[i])
						}
					}
					return out
				}
				// []rune
				var out []value
				for i := 0; i < len(s); {
					if b != nil && b[i] != nil {
						ascii := m.Ctx.BvCmp(sym.OBvUlt, b[i], m.Ctx.BVC(8, 0x80))
						if !m.truth(mkSym(s[i] < 0x80, ascii), "byte-ascii") {
							abort("symbolic non-ASCII byte in string->[]rune")
						}
						out = append(out, &symv{c: int64(s[i]), t: m.Ctx.Zext(b[i], 32)})
						i++
						continue
					}
					r, sz := utf8.DecodeRuneInString(s[i:])
					if sz > 1 && b != nil {
						for j := i; j < i+sz; j++ {
							if b[j] != nil {
								abort("symbolic byte inside multi-byte rune")
							}
						}
					}
					out = append(out, int64(r))
					i += sz
				}
				if out == nil {
					out = []value{}
				}
				return out
			}
			if isString(ud) {
				return x
			}
		}
		if bd, ok := ud.(*types.Basic); ok {
			ks, sint := intKindOf(bs)
			kd, dint := intKindOf(bd)
			switch {
			case sint && dint:
				r := normInt(kd, bitsOf(normInt(ks, bitsOf(x))))
				if s, ok := x.(*symv); ok {
					var tm *sym.Term
					if kd.w <= ks.w {
						tm = m.Ctx.Extract(s.t, kd.w-1, 0)
					} else if ks.signed {
						tm = m.Ctx.Sext(s.t, kd.w)
					} else {
						tm = m.Ctx.Zext(s.t, kd.w)
					}
					return mkSym(r, tm)
				}
				return r
			case sint && isFloat(bd):
				var f float64
				if ks.signed {
					f = float64(int64(bitsOf(x)))
				} else {
					f = float64(bitsOf(x))
				}
				if bd.Kind() == types.Float32 {
					f = float64(float32(f))
				}
				if s, ok := x.(*symv); ok {
					if bd.Kind() == types.Float32 {
						abort("symbolic int->float32")
					}
					if ks.signed {
						return mkSym(f, m.Ctx.FpFromSBV(s.t))
					}
					return mkSym(f, m.Ctx.FpFromUBV(s.t))
				}
				return f
			case isFloat(bs) && dint:
				f := conc(x).(float64)
				var r value
				if kd.signed {
					r = normInt(kd, uint64(FloatToInt64(f)))
				} else {
					// amd64: via int64 for values < 2^63
					if f >= 9223372036854775808.0 {
						r = normInt(kd, uint64(FloatToInt64(f-9223372036854775808.0))^0x8000000000000000)
					} else {
						r = normInt(kd, uint64(FloatToInt64(f)))
					}
				}
				if s, ok := x.(*symv); ok {
					if !kd.signed {
						abort("symbolic float->unsigned conversion")
					}
					c := m.Ctx
					two63 := c.FPC(9223372036854775808.0)
					oor := c.Or(c.FpIsNaN(s.t), c.FpCmp(sym.OFpLe, two63, s.t), c.FpCmp(sym.OFpLt, s.t, c.FPC(-9223372036854775808.0)))
					tm := c.Ite(oor, c.BVC(64, 0x8000000000000000), c.FpToSBV(s.t))
					if kd.w < 64 {
						tm = c.Extract(tm, kd.w-1, 0)
					}
					return mkSym(r, tm)
				}
				return r
			case isFloat(bs) && isFloat(bd):
				if bd.Kind() == types.Float32 {
					if isSym(x) {
						abort("symbolic float64->float32")
					}
					return float64(float32(x.(float64)))
				}
				return x
			case sint && isString(bd):
				// string(rune)
				if s, ok := x.(*symv); ok {
					r := asInt(s.c)
					t32 := s.t
					if t32.Sort.W != 32 {
						if t32.Sort.W > 32 {
							t32 = m.Ctx.Extract(t32, 31, 0)
						} else {
							t32 = m.Ctx.Zext(t32, 32)
						}
					}
					ascii := m.Ctx.BvCmp(sym.OBvUlt, t32, m.Ctx.BVC(32, 0x80))
					if !m.truth(mkSym(r >= 0 && r < 0x80, ascii), "rune-ascii") {
						abort("symbolic non-ASCII rune in string(rune)")
					}
					return mkStr(string(rune(r)), []*sym.Term{m.Ctx.Extract(t32, 7, 0)})
				}
				if ks.signed {
					return string(rune(asInt(x)))
				}
				u := bitsOf(x)
				if u > 0x10FFFF {
					return "�"
				}
				return string(rune(u))
			case isBool(bs) && isBool(bd):
				return x
			}
		}
	}
	panic(fmt.Sprintf("conv: %s -> %s (%T)", tsrc, tdst, x))
}

// ---- slicing ----

func (m *Machine) sliceOp(instr *ssa.Slice, x, lo, hi, max value) value {
	var length, capacity int
	switch x := x.(type) {
	case string:
		length = len(x)
		capacity = length
	case *symstr:
		length = len(x.s)
		capacity = length
	case []value:
		length = len(x)
		capacity = cap(x)
	case *value: // *array
		if x == nil {
			m.fault("nil pointer dereference (slice of nil array pointer)")
		}
		a := (*x).(array)
		length = len(a)
		capacity = length
	default:
		panic(fmt.Sprintf("slice: %T", x))
	}
	_, isStr := x.(string)
	if _, ok := x.(*symstr); ok {
		isStr = true
	}
	l, h, mx := int64(0), int64(length), int64(capacity)
	c := m.Ctx
	// bounds check with symbolic operands is a decision
	var okT []*sym.Term
	lt := func(v value) *sym.Term {
		if s, ok := v.(*symv); ok {
			return s.t
		}
		return c.BVC(64, uint64(asInt(v)))
	}
	if lo != nil {
		l = asInt(lo)
	}
	if hi != nil {
		h = asInt(hi)
	}
	if max != nil {
		mx = asInt(max)
	}
	anySym := (lo != nil && isSym(lo)) || (hi != nil && isSym(hi)) || (max != nil && isSym(max))
	limit := int64(capacity)
	if isStr {
		limit = int64(length)
	}
	concOK := 0 <= l && l <= h && h <= mx && mx <= limit
	if anySym {
		var lT, hT, mT *sym.Term
		lT = c.BVC(64, uint64(l))
		hT = c.BVC(64, uint64(h))
		mT = c.BVC(64, uint64(mx))
		if lo != nil {
			lT = lt(lo)
		}
		if hi != nil {
			hT = lt(hi)
		}
		if max != nil {
			mT = lt(max)
		}
		okT = append(okT, c.BvCmp(sym.OBvSle, c.BVC(64, 0), lT), c.BvCmp(sym.OBvSle, lT, hT),
			c.BvCmp(sym.OBvSle, hT, mT), c.BvCmp(sym.OBvSle, mT, c.BVC(64, uint64(limit))))
		m.decide(c.And(okT...), concOK, "slice-bounds")
	}
	if !concOK {
		m.fault(fmt.Sprintf("slice bounds out of range [%d:%d:%d] with length/capacity %d", l, h, mx, limit))
	}
	if anySym {
		if lo != nil {
			m.concretize(lo)
		}
		if hi != nil {
			m.concretize(hi)
		}
		if max != nil {
			m.concretize(max)
		}
	}
	switch x := x.(type) {
	case string:
		return x[l:h]
	case *symstr:
		return mkStr(x.s[l:h], x.b[l:h])
	case []value:
		if x == nil && h == 0 {
			return []value(nil)
		}
		return x[l:h:mx]
	case *value:
		a := (*x).(array)
		return []value(a)[l:h:mx]
	}
	panic("unreachable")
}

// index check helper: idx may be symbolic; returns the concrete index.
func (m *Machine) checkIndex(idx value, length int, what string) int {
	i := asInt(idx)
	ok := i >= 0 && i < int64(length)
	if s, isS := idx.(*symv); isS {
		c := m.Ctx
		t := s.t
		if t.Sort.W < 64 {
			// index of narrower type: extend by Go signedness of concrete repr
			if _, signed := s.c.(int64); signed {
				t = c.Sext(t, 64)
			} else {
				t = c.Zext(t, 64)
			}
		}
		known := false
		if name := varOf(t); name != "" {
			if dom, okd := m.Domains[name]; okd && dom[0] >= 0 && dom[1] < int64(length) {
				known = true // the domain assumption already implies the bounds check
			}
		}
		if !known {
			in := c.And(c.BvCmp(sym.OBvSle, c.BVC(64, 0), t), c.BvCmp(sym.OBvSlt, t, c.BVC(64, uint64(length))))
			m.decide(in, ok, "index-bounds")
		}
		if ok {
			if length <= 64 {
				m.concretizeRange(t, uint64(i), 0, int64(length)-1)
			} else {
				m.concretizeBV(t, uint64(i))
			}
		}
	}
	if !ok {
		m.fault(fmt.Sprintf("index out of range [%d] with length %d (%s)", i, length, what))
	}
	return int(i)
}

// ---- type assertions ----

func (m *Machine) implements(t types.Type, it *types.Interface) bool {
	return types.Implements(t, it)
}

func (m *Machine) typeAssert(instr *ssa.TypeAssert, itf iface) value {
	var v value
	ok := false
	if idst, isI := instr.AssertedType.Underlying().(*types.Interface); isI {
		if itf.t != nil && m.implements(itf.t, idst) {
			v = itf
			ok = true
		}
	} else if itf.t != nil && sameType(itf.t, instr.AssertedType) {
		v = itf.v
		ok = true
	}
	if !ok {
		if !instr.CommaOk {
			got := "nil"
			if itf.t != nil {
				got = itf.t.String()
			}
			m.fault(fmt.Sprintf("interface conversion: interface is %s, not %s", got, instr.AssertedType))
		}
		return tuple{zero(instr.AssertedType), false}
	}
	if instr.CommaOk {
		return tuple{v, true}
	}
	return v
}

// ---- range iterators ----

type stringIter struct {
	s   string
	b   []*sym.Term
	pos int
}

func (it *stringIter) next(m *Machine) tuple {
	if it.pos >= len(it.s) {
		return tuple{false, int64(0), int64(0)}
	}
	i := it.pos
	if it.b != nil && it.b[i] != nil {
		ascii := m.Ctx.BvCmp(sym.OBvUlt, it.b[i], m.Ctx.BVC(8, 0x80))
		if !m.truth(mkSym(it.s[i] < 0x80, ascii), "byte-ascii") {
			abort("symbolic non-ASCII byte in range over string")
		}
		it.pos++
		return tuple{true, int64(i), &symv{c: int64(it.s[i]), t: m.Ctx.Zext(it.b[i], 32)}}
	}
	r, sz := utf8.DecodeRuneInString(it.s[i:])
	if sz > 1 && it.b != nil {
		for j := i; j < i+sz; j++ {
			if it.b[j] != nil {
				abort("symbolic byte inside multi-byte rune")
			}
		}
	}
	it.pos += sz
	return tuple{true, int64(i), int64(r)}
}

type mapIter struct {
	m     *mapv
	keys  []value
	pos   int
	skeys []symEntry
	spos  int
}

func (it *mapIter) next(_ *Machine) tuple {
	for it.pos < len(it.keys) {
		k := it.keys[it.pos]
		it.pos++
		if v, ok := it.m.m[k]; ok {
			return tuple{true, k, copyVal(v)}
		}
	}
	if it.spos < len(it.skeys) {
		e := it.skeys[it.spos]
		it.spos++
		return tuple{true, e.k, copyVal(e.v)}
	}
	return tuple{false, nil, nil}
}

func (m *Machine) rangeIter(x value, t types.Type) iter {
	switch x := x.(type) {
	case *mapv:
		if x == nil {
			return &mapIter{m: newMap()}
		}
		return &mapIter{m: x, keys: append([]value(nil), x.keys...), skeys: append([]symEntry(nil), x.skeys...)}
	case string:
		return &stringIter{s: x}
	case *symstr:
		return &stringIter{s: x.s, b: x.b}
	}
	panic(fmt.Sprintf("range over %T", x))
}
