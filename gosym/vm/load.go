package vm

import (
	"fmt"
	"os"
	"path/filepath"
	"sort"
	"strings"

	"golang.org/x/tools/go/packages"
	"golang.org/x/tools/go/ssa"
	"golang.org/x/tools/go/ssa/ssautil"
)

// Program is the SSA of /repo's package (with harness overlay) and its dependencies.
type Program struct {
	Prog    *ssa.Program
	Pkg     *ssa.Package
	Overlay map[string]string // virtual path -> real file (for native replay)
	RepoDir string
}

// Load builds SSA for the package in repoDir with every *.go file of
// harnessDir injected as <repoDir>/zz_verif_<name>. withTests also loads the
// package's _test.go files (for the self test).
func Load(repoDir, harnessDir string, withTests bool) (*Program, error) {
	overlay := map[string][]byte{}
	ovFiles := map[string]string{}
	if harnessDir != "" {
		ents, err := os.ReadDir(harnessDir)
		if err != nil {
			return nil, err
		}
		for _, e := range ents {
			if !strings.HasSuffix(e.Name(), ".go") {
				continue
			}
			if strings.HasSuffix(e.Name(), "_test.go") && !withTests {
				// test-only harness files are used by native replay only
				continue
			}
			src, err := os.ReadFile(filepath.Join(harnessDir, e.Name()))
			if err != nil {
				return nil, err
			}
			virt := filepath.Join(repoDir, "zz_verif_"+e.Name())
			overlay[virt] = src
			ovFiles[virt] = filepath.Join(harnessDir, e.Name())
		}
	}
	cfg := &packages.Config{
		Mode:       packages.LoadAllSyntax,
		Dir:        repoDir,
		BuildFlags: []string{"-tags=verif"},
		Overlay:    overlay,
		Tests:      withTests,
		Env:        append(os.Environ(), "GOFLAGS=-mod=mod", "GOPROXY=off", "GOSUMDB=off", "GOTOOLCHAIN=local"),
	}
	pkgs, err := packages.Load(cfg, ".")
	if err != nil {
		return nil, err
	}
	var errs []string
	packages.Visit(pkgs, nil, func(p *packages.Package) {
		for _, e := range p.Errors {
			errs = append(errs, e.Error())
		}
	})
	if len(errs) > 0 {
		sort.Strings(errs)
		if len(errs) > 10 {
			errs = errs[:10]
		}
		return nil, fmt.Errorf("load errors (harness does not compile against the current tree?):\n%s", strings.Join(errs, "\n"))
	}
	prog, ssapkgs := ssautil.AllPackages(pkgs, ssa.InstantiateGenerics)
	prog.Build()
	var main *ssa.Package
	for i, p := range pkgs {
		if ssapkgs[i] == nil {
			continue
		}
		if withTests {
			// pick the variant that contains the test files: ID "path [path.test]"
			if strings.Contains(p.ID, "[") && p.PkgPath == "github.com/antchfx/xpath" {
				main = ssapkgs[i]
			}
		} else if p.PkgPath == "github.com/antchfx/xpath" {
			main = ssapkgs[i]
		}
	}
	if main == nil {
		for i, p := range pkgs {
			if ssapkgs[i] != nil && p.PkgPath == "github.com/antchfx/xpath" {
				main = ssapkgs[i]
			}
		}
	}
	if main == nil {
		return nil, fmt.Errorf("package github.com/antchfx/xpath not found in %s", repoDir)
	}
	return &Program{Prog: prog, Pkg: main, Overlay: ovFiles, RepoDir: repoDir}, nil
}
