package vm

import (
	"fmt"
	"go/types"
	"strings"

	"golang.org/x/tools/go/ssa"
)

// Re-entry monitor (C06 d): whenever a parser/builder method is entered while
// an activation of the same method is still on the interpreted call stack, the
// depth-guard counter of its receiver must be strictly larger than at that
// previous activation.

type reentryState struct {
	stacks map[*ssa.Function][]int64
	viol   []string
	seen   map[string]bool
}

func counterOf(recv value, fn *ssa.Function) (int64, bool) {
	p, ok := recv.(*value)
	if !ok || p == nil {
		return 0, false
	}
	st, ok := (*p).(structure)
	if !ok {
		return 0, false
	}
	rt := fn.Signature.Recv().Type()
	if pt, ok := rt.(*types.Pointer); ok {
		rt = pt.Elem()
	}
	named, ok := rt.(*types.Named)
	if !ok {
		return 0, false
	}
	s, ok := named.Underlying().(*types.Struct)
	if !ok {
		return 0, false
	}
	want := ""
	switch named.Obj().Name() {
	case "parser":
		want = "d"
	case "builder":
		want = "parseDepth"
	default:
		return 0, false
	}
	for i := 0; i < s.NumFields(); i++ {
		if s.Field(i).Name() == want {
			return asInt(st[i]), true
		}
	}
	return 0, false
}

func registerReentry(m *Machine) {
	e := m.ext
	e[hpkg+"vReentryWatch"] = func(m *Machine, fr *frame, a []value) value {
		rs := &reentryState{stacks: map[*ssa.Function][]int64{}, seen: map[string]bool{}}
		m.Scratch["reentry"] = rs
		m.Hooks.OnEnter = func(m *Machine, fn *ssa.Function, args []value) {
			if fn.Signature.Recv() == nil || fn.Pkg != m.MainPkg || len(args) == 0 {
				return
			}
			if !strings.HasPrefix(fn.Name(), "parse") && !strings.HasPrefix(fn.Name(), "process") {
				return
			}
			c, ok := counterOf(args[0], fn)
			if !ok {
				return
			}
			st := rs.stacks[fn]
			if len(st) > 0 && c <= st[len(st)-1] {
				msg := fmt.Sprintf("%s re-entered with guard counter %d (previous activation: %d)", fn.Name(), c, st[len(st)-1])
				if !rs.seen[fn.Name()] {
					rs.seen[fn.Name()] = true
					rs.viol = append(rs.viol, msg)
				}
			}
			rs.stacks[fn] = append(st, c)
		}
		m.Hooks.OnLeave = func(m *Machine, fn *ssa.Function) {
			if st := rs.stacks[fn]; len(st) > 0 {
				rs.stacks[fn] = st[:len(st)-1]
			}
		}
		return nil
	}
	e[hpkg+"vReentryViolations"] = func(m *Machine, fr *frame, a []value) value {
		rs, _ := m.Scratch["reentry"].(*reentryState)
		if rs == nil {
			return ""
		}
		return strings.Join(rs.viol, "; ")
	}
}
