package vm

import (
	"fmt"
	"go/types"
	"math"
	"sort"
	"strconv"
	"strings"

	"gosym/sym"
)

// Obligation is one vAssert / oracle check reached on a path.
type Obligation struct {
	Label string
	T     *sym.Term // nil when the condition was concrete
	Conc  bool
	PCLen int
	Info  string // free-form detail for reports
	// Lemmas: equalities the term T relies on (model values substituted for
	// structure-determined subterms). They are proved first; if that fails,
	// Fallback rebuilds T without substitution.
	Lemmas   []*sym.Term
	Fallback func() *sym.Term
}

// Observation is what the harness reported through vObserve.
type Observation struct {
	Label string `json:"label"`
	Value string `json:"value"`
}

// PathState collects harness-level events of one path.
type PathState struct {
	Params       map[string]string
	Inputs       map[string]string // every nondeterministic input read on this path (canonical text)
	InputOrder   []string
	Obligations  []Obligation
	Observations []Observation
	Notes        []string
	Reached      map[string]int
	Flags        map[string]bool // e.g. "nontrivial"
}

func (m *Machine) PS() *PathState {
	ps, _ := m.Scratch["ps"].(*PathState)
	if ps == nil {
		ps = &PathState{Params: map[string]string{}, Inputs: map[string]string{}, Reached: map[string]int{}, Flags: map[string]bool{}}
		m.Scratch["ps"] = ps
	}
	return ps
}

const hpkg = "github.com/antchfx/xpath."

// ClassSet returns the byte set of a named class or a literal "set:..." class.
func ClassSet(class string) []byte {
	var out []byte
	add := func(lo, hi byte) {
		for c := int(lo); c <= int(hi); c++ {
			out = append(out, byte(c))
		}
	}
	switch class {
	case "ascii":
		add(1, 127)
	case "xmlascii":
		out = append(out, 9, 10, 13)
		add(0x20, 0x7e)
	case "name1":
		add('a', 'z')
		add('A', 'Z')
		out = append(out, '_')
	case "namec":
		add('a', 'z')
		add('A', 'Z')
		add('0', '9')
		out = append(out, '_', '-', '.')
	case "digit":
		add('0', '9')
	case "ws":
		out = append(out, 0x20, 9, 10, 13)
	case "punct":
		for c := byte(0x21); c < 0x7f; c++ {
			if !(c >= '0' && c <= '9') && !(c >= 'a' && c <= 'z') && !(c >= 'A' && c <= 'Z') {
				out = append(out, c)
			}
		}
	default:
		if strings.HasPrefix(class, "set:") {
			out = []byte(class[4:])
		} else {
			panic("unknown byte class " + class)
		}
	}
	return out
}

func (m *Machine) classTerm(t *sym.Term, class string) *sym.Term {
	set := ClassSet(class)
	sort.Slice(set, func(i, j int) bool { return set[i] < set[j] })
	c := m.Ctx
	var disj []*sym.Term
	for i := 0; i < len(set); i++ {
		j := i
		for j+1 < len(set) && set[j+1] == set[j]+1 {
			j++
		}
		if i == j {
			disj = append(disj, c.Eq(t, c.BVC(8, uint64(set[i]))))
		} else {
			disj = append(disj, c.And(c.BvCmp(sym.OBvUle, c.BVC(8, uint64(set[i])), t), c.BvCmp(sym.OBvUle, t, c.BVC(8, uint64(set[j])))))
		}
		i = j
	}
	return c.Or(disj...)
}

func (m *Machine) inputInt(name string, lo, hi int64) value {
	ps := m.PS()
	if lo > hi {
		panic(pathEnd{"empty domain for " + name})
	}
	if lo == hi {
		ps.note(name, strconv.FormatInt(lo, 10))
		return lo
	}
	v := m.Ctx.IntVar(name, lo, hi)
	c := lo
	if mv, ok := m.Model[name]; ok {
		c = sym.IntVarValue(mv, lo, hi)
	}
	if c < lo || c > hi {
		// model value outside the domain (variable was unconstrained in the query)
		c = lo
	}
	m.Model[name] = sym.IntVarEncode(c, lo, hi)
	m.Domains[name] = [2]int64{lo, hi}
	if _, seen := ps.Inputs[name]; !seen {
		m.AssumeFixed(m.Ctx.And(m.Ctx.BvCmp(sym.OBvSle, m.Ctx.BVC(64, uint64(lo)), v), m.Ctx.BvCmp(sym.OBvSle, v, m.Ctx.BVC(64, uint64(hi)))), "domain:"+name)
	}
	ps.note(name, strconv.FormatInt(c, 10))
	return &symv{c: c, t: v}
}

func (ps *PathState) note(name, val string) {
	if _, ok := ps.Inputs[name]; !ok {
		ps.InputOrder = append(ps.InputOrder, name)
	}
	ps.Inputs[name] = val
}

func (m *Machine) inputByte(name, class string) value {
	ps := m.PS()
	set := ClassSet(class)
	v := m.Ctx.Var(name, sym.BV(8))
	c := set[0]
	if mv, ok := m.Model[name]; ok {
		c = byte(mv.U)
	}
	in := false
	for _, b := range set {
		if b == c {
			in = true
		}
	}
	if !in {
		c = set[0]
	}
	m.Model[name] = sym.Val{U: uint64(c)}
	if _, seen := ps.Inputs[name]; !seen {
		m.AssumeFixed(m.classTerm(v, class), "class:"+name)
	}
	ps.note(name, strconv.Itoa(int(c)))
	if len(set) == 1 {
		return uint64(c)
	}
	return &symv{c: uint64(c), t: v}
}

func (m *Machine) inputStr(name string, maxLen int64, class string) value {
	ln := m.inputInt(name+"#len", 0, maxLen)
	n := asInt(m.concretize(ln))
	bs := make([]byte, n)
	ts := make([]*sym.Term, n)
	for i := int64(0); i < n; i++ {
		b := m.inputByte(fmt.Sprintf("%s#%d", name, i), class)
		bs[i] = byte(bitsOf(b))
		if s, ok := b.(*symv); ok {
			ts[i] = s.t
		}
	}
	return mkStr(string(bs), ts)
}

func (m *Machine) inputFloat(name string, mode string) value {
	ps := m.PS()
	v := m.Ctx.Var(name, sym.FP)
	f := 0.0
	if mv, ok := m.Model[name]; ok {
		f = mv.F()
	}
	c := m.Ctx
	if _, seen := ps.Inputs[name]; !seen {
		switch mode {
		case "finite":
			m.AssumeFixed(c.And(c.Not(c.FpIsNaN(v)), c.Not(c.FpIsInf(v))), "finite:"+name)
		case "any":
		default:
			panic("vFloat mode " + mode)
		}
	}
	if mode == "finite" && (f != f || math.IsInf(f, 0)) {
		f = 0
	}
	m.Model[name] = sym.FPVal(f)
	ps.note(name, "f:"+strconv.FormatUint(math.Float64bits(f), 16))
	return &symv{c: f, t: v}
}

// RenderObs renders a concrete interpreted value canonically (shared with the native side).
func (m *Machine) renderObs(v value) string {
	switch v := v.(type) {
	case iface:
		if v.t == nil {
			return "nil"
		}
		return m.renderObs(v.v)
	case bool:
		return strconv.FormatBool(v)
	case int64:
		return strconv.FormatInt(v, 10)
	case uint64:
		return strconv.FormatUint(v, 10)
	case float64:
		if v != v {
			return "NaN"
		}
		return "f:" + strconv.FormatUint(math.Float64bits(v), 16)
	case string:
		return strconv.Quote(v)
	case *symv:
		return m.renderObs(v.c)
	case *symstr:
		return strconv.Quote(v.s)
	case []value:
		parts := make([]string, len(v))
		for i := range v {
			parts[i] = m.renderObs(v[i])
		}
		return "[" + strings.Join(parts, ",") + "]"
	}
	return fmt.Sprintf("<%T>", v)
}

func registerHarness(m *Machine) {
	e := m.ext
	e[hpkg+"vParam"] = func(m *Machine, fr *frame, a []value) value {
		k := concStr(a[0])
		v, ok := m.PS().Params[k]
		if !ok {
			abort("harness parameter %q not set", k)
		}
		return v
	}
	e[hpkg+"vParamInt"] = func(m *Machine, fr *frame, a []value) value {
		k := concStr(a[0])
		v, ok := m.PS().Params[k]
		if !ok {
			abort("harness parameter %q not set", k)
		}
		n, err := strconv.Atoi(v)
		if err != nil {
			abort("harness parameter %q is not an int: %q", k, v)
		}
		return int64(n)
	}
	e[hpkg+"vHasParam"] = func(m *Machine, fr *frame, a []value) value {
		_, ok := m.PS().Params[concStr(a[0])]
		return ok
	}
	e[hpkg+"vInt"] = func(m *Machine, fr *frame, a []value) value {
		return m.inputInt(concStr(a[0]), asInt(a[1]), asInt(a[2]))
	}
	e[hpkg+"vBool"] = func(m *Machine, fr *frame, a []value) value {
		name := concStr(a[0])
		v := m.Ctx.Var(name, sym.Bool)
		c := false
		if mv, ok := m.Model[name]; ok {
			c = mv.B()
		}
		m.Model[name] = sym.BoolVal(c)
		m.PS().note(name, strconv.FormatBool(c))
		return &symv{c: c, t: v}
	}
	e[hpkg+"vByte"] = func(m *Machine, fr *frame, a []value) value {
		return m.inputByte(concStr(a[0]), concStr(a[1]))
	}
	e[hpkg+"vStr"] = func(m *Machine, fr *frame, a []value) value {
		return m.inputStr(concStr(a[0]), asInt(a[1]), concStr(a[2]))
	}
	e[hpkg+"vFloat"] = func(m *Machine, fr *frame, a []value) value {
		return m.inputFloat(concStr(a[0]), concStr(a[1]))
	}
	e[hpkg+"vAssume"] = func(m *Machine, fr *frame, a []value) value {
		switch c := a[0].(type) {
		case bool:
			if !c {
				panic(pathEnd{"assume"})
			}
		case *symv:
			if c.c.(bool) {
				m.AssumeFixed(c.t, "assume")
			} else {
				m.PC = append(m.PC, Decision{T: c.t, Taken: false, Why: "assume"})
				panic(pathEnd{"assume"})
			}
		}
		return nil
	}
	e[hpkg+"vAssert"] = func(m *Machine, fr *frame, a []value) value {
		ob := Obligation{Label: concStr(a[1]), PCLen: len(m.PC), Info: m.where()}
		switch c := a[0].(type) {
		case bool:
			ob.Conc = c
		case *symv:
			ob.Conc = c.c.(bool)
			ob.T = c.t
		}
		ps := m.PS()
		ps.Obligations = append(ps.Obligations, ob)
		return nil
	}
	e[hpkg+"vAssertInfo"] = func(m *Machine, fr *frame, a []value) value {
		ob := Obligation{Label: concStr(a[1]), PCLen: len(m.PC), Info: concStr(a[2])}
		switch c := a[0].(type) {
		case bool:
			ob.Conc = c
		case *symv:
			ob.Conc = c.c.(bool)
			ob.T = c.t
		}
		ps := m.PS()
		ps.Obligations = append(ps.Obligations, ob)
		return nil
	}
	e[hpkg+"vNote"] = func(m *Machine, fr *frame, a []value) value {
		ps := m.PS()
		ps.Notes = append(ps.Notes, concStr(a[0])+": "+concStr(a[1]))
		return nil
	}
	e[hpkg+"vReach"] = func(m *Machine, fr *frame, a []value) value {
		m.PS().Reached[concStr(a[0])]++
		return nil
	}
	e[hpkg+"vFlag"] = func(m *Machine, fr *frame, a []value) value {
		m.PS().Flags[concStr(a[0])] = true
		return nil
	}
	e[hpkg+"vObserve"] = func(m *Machine, fr *frame, a []value) value {
		ps := m.PS()
		ps.Observations = append(ps.Observations, Observation{Label: concStr(a[0]), Value: m.renderObs(a[1])})
		return nil
	}
	e[hpkg+"vStop"] = func(m *Machine, fr *frame, a []value) value {
		panic(pathEnd{"stop"})
	}
	e[hpkg+"vOr"] = func(m *Machine, fr *frame, a []value) value { return m.notv(m.andv(m.notv(a[0]), m.notv(a[1]))) }
	e[hpkg+"vAnd"] = func(m *Machine, fr *frame, a []value) value { return m.andv(a[0], a[1]) }
	e[hpkg+"vNot"] = func(m *Machine, fr *frame, a []value) value { return m.notv(a[0]) }
	e[hpkg+"vImplies"] = func(m *Machine, fr *frame, a []value) value { return m.notv(m.andv(a[0], m.notv(a[1]))) }
	e[hpkg+"vConc"] = func(m *Machine, fr *frame, a []value) value { return m.concretize(a[0]) }
	e[hpkg+"vSymbolic"] = func(m *Machine, fr *frame, a []value) value { return true }
	// vClassifyPanic(r interface{}) int: 0 none, 1 runtime error, 2 foreign error,
	// 3 error created by package xpath, 4 any other value
	e[hpkg+"vClassifyPanic"] = func(m *Machine, fr *frame, a []value) value {
		r := a[0].(iface)
		if r.t == nil {
			return int64(0)
		}
		if p, ok := r.v.(*value); ok && p != nil {
			if re, _ := m.Scratch["runtimeErrors"].(map[*value]bool); re[p] {
				return int64(1)
			}
			if ft, _ := m.Scratch["foreignType"].(map[*value]string); ft[p] != "" {
				return int64(2)
			}
		}
		if types.Implements(r.t, m.errorType.Underlying().(*types.Interface)) {
			if named, ok := derefNamed(r.t); ok && named.Obj().Pkg() != nil {
				switch named.Obj().Pkg().Path() {
				case "errors", "fmt", "github.com/antchfx/xpath":
					return int64(3)
				}
				return int64(2)
			}
			return int64(3)
		}
		return int64(4)
	}
	e[hpkg+"vPanicText"] = func(m *Machine, fr *frame, a []value) value {
		r := a[0].(iface)
		if r.t == nil {
			return ""
		}
		hv := m.hostValue(fr, r)
		return fmt.Sprint(hv)
	}
}

func derefNamed(t types.Type) (*types.Named, bool) {
	if p, ok := t.(*types.Pointer); ok {
		t = p.Elem()
	}
	n, ok := t.(*types.Named)
	return n, ok
}
