package vm

import (
	"fmt"
	"go/token"
	"go/types"
	"runtime"
	"strings"

	"golang.org/x/tools/go/ssa"

	"gosym/sym"
)

// Decision is one entry of the path condition.
type Decision struct {
	T     *sym.Term
	Taken bool   // the polarity that holds on this path
	Why   string // origin (branch / bounds / concretize / assume / domain)
	Fixed bool   // never flipped (domain constraints, assertions already proved)
}

// Lit is the literal that holds on the path.
func (d Decision) Lit(c *sym.Ctx) *sym.Term {
	if d.Taken {
		return d.T
	}
	return c.Not(d.T)
}

type extFn func(m *Machine, fr *frame, args []value) value

// Machine is one interpreter instance: program + one path's dynamic state.
type Machine struct {
	Prog    *ssa.Program
	Ctx     *sym.Ctx
	globals map[*ssa.Global]*value
	inited  map[*ssa.Package]bool
	ext     map[string]extFn
	fnIndex map[*ssa.Function]*fnInfo
	MainPkg *ssa.Package // package under analysis (xpath)

	// per-path state
	Model    sym.Model
	PC       []Decision
	pcSet    map[int]bool // term IDs already decided on this path
	Steps    int64
	MaxSteps int64
	depth    int
	MaxDepth int
	cur      *frame
	Hooks    Hooks
	Called   map[string]int // functions of MainPkg executed (coverage)
	Stubs    map[string]int // intrinsics / models used

	Domains map[string][2]int64 // known ranges of integer input variables
	Lossy   []string            // reasons this path does not represent all inputs of its class

	// generic per-path scratch for harness intrinsics
	Scratch map[string]interface{}

	errorType types.Type
}

// Hooks lets the harness layer observe the execution.
type Hooks struct {
	OnStore func(m *Machine, addr *value, old, new value, fr *frame)
	OnEnter func(m *Machine, fn *ssa.Function, args []value)
	OnLeave func(m *Machine, fn *ssa.Function)
	OnMap   func(m *Machine, mp *mapv, fr *frame)
	OnLoad  func(m *Machine, addr *value)
}

type fnInfo struct {
	index  map[ssa.Value]int
	n      int
	name   string
	ext    extFn
	inMain bool
	skip   bool // initialiser of another package
}

type deferred struct {
	fn    value
	args  []value
	instr *ssa.Defer
	tail  *deferred
}

type frame struct {
	m                *Machine
	caller           *frame
	fn               *ssa.Function
	block, prevBlock *ssa.BasicBlock
	env              []value
	info             *fnInfo
	defers           *deferred
	result           value
	panicking        bool
	panic            interface{}
	instr            ssa.Instruction
}

func NewMachine(prog *ssa.Program, main *ssa.Package) *Machine {
	m := &Machine{
		Prog:     prog,
		MainPkg:  main,
		globals:  map[*ssa.Global]*value{},
		inited:   map[*ssa.Package]bool{},
		ext:      map[string]extFn{},
		fnIndex:  map[*ssa.Function]*fnInfo{},
		MaxSteps: 5_000_000,
		MaxDepth: 3000,
	}
	m.errorType = types.Universe.Lookup("error").Type()
	registerExternals(m)
	return m
}

// ResetPath prepares for a new path under model.
func (m *Machine) ResetPath(ctx *sym.Ctx, model sym.Model) {
	m.Ctx = ctx
	m.Model = model
	m.PC = m.PC[:0]
	m.pcSet = map[int]bool{}
	m.Steps = 0
	m.depth = 0
	m.cur = nil
	m.globals = map[*ssa.Global]*value{}
	m.inited = map[*ssa.Package]bool{}
	m.Scratch = map[string]interface{}{}
	m.Domains = map[string][2]int64{}
	m.Lossy = nil
	m.Hooks = Hooks{}
	if m.Called == nil {
		m.Called = map[string]int{}
	}
	if m.Stubs == nil {
		m.Stubs = map[string]int{}
	}
}

// decide appends a decision unless the same term was already decided on this path.
func (m *Machine) decide(t *sym.Term, taken bool, why string) {
	if t.IsConst() {
		if (t.U != 0) != taken {
			panic(fmt.Sprintf("vm: decision on constant contradicts concrete value (%s) at %s", why, m.where()))
		}
		return
	}
	base := t
	pol := taken
	if t.Op == sym.ONot {
		base = t.Args[0]
		pol = !taken
	}
	if m.pcSet[base.ID] {
		return
	}
	m.pcSet[base.ID] = true
	m.PC = append(m.PC, Decision{T: base, Taken: pol, Why: why})
}

// Assume adds a fixed (never flipped) fact.
func (m *Machine) AssumeFixed(t *sym.Term, why string) {
	if t.IsConst() {
		return
	}
	m.PC = append(m.PC, Decision{T: t, Taken: true, Why: why, Fixed: true})
}

func (m *Machine) where() string {
	fr := m.cur
	if fr == nil {
		return "?"
	}
	pos := token.NoPos
	if fr.instr != nil {
		pos = fr.instr.Pos()
	}
	for f := fr; pos == token.NoPos && f != nil; f = f.caller {
		if f.instr != nil {
			pos = f.instr.Pos()
		}
	}
	p := m.Prog.Fset.Position(pos)
	return fmt.Sprintf("%s (%s:%d)", fr.fn.String(), shortFile(p.Filename), p.Line)
}

func shortFile(f string) string {
	if i := strings.LastIndex(f, "/"); i >= 0 {
		return f[i+1:]
	}
	return f
}

// Stack returns a short textual call stack of the interpreted program.
func (m *Machine) Stack() string {
	var sb strings.Builder
	for f := m.cur; f != nil; f = f.caller {
		sb.WriteString(f.fn.String())
		sb.WriteString(" <- ")
	}
	return sb.String()
}

func (m *Machine) info(fn *ssa.Function) *fnInfo {
	if fi, ok := m.fnIndex[fn]; ok {
		return fi
	}
	fi := &fnInfo{index: map[ssa.Value]int{}}
	fi.name = fn.String()
	fi.ext = m.ext[fi.name]
	fi.inMain = fn.Pkg == m.MainPkg || (fn.Parent() != nil && fn.Parent().Pkg == m.MainPkg)
	fi.skip = fn.Pkg != nil && fn.Pkg != m.MainPkg && fn.Name() == "init" && fn.Parent() == nil && fn.Signature.Recv() == nil
	add := func(v ssa.Value) {
		if _, ok := fi.index[v]; !ok {
			fi.index[v] = fi.n
			fi.n++
		}
	}
	for _, p := range fn.Params {
		add(p)
	}
	for _, fv := range fn.FreeVars {
		add(fv)
	}
	for _, l := range fn.Locals {
		add(l)
	}
	for _, b := range fn.Blocks {
		for _, in := range b.Instrs {
			if v, ok := in.(ssa.Value); ok {
				add(v)
			}
		}
	}
	m.fnIndex[fn] = fi
	return fi
}

func (fr *frame) set(k ssa.Value, v value) { fr.env[fr.info.index[k]] = v }

func (fr *frame) get(key ssa.Value) value {
	switch key := key.(type) {
	case nil:
		return nil
	case *ssa.Function:
		return key
	case *ssa.Builtin:
		return key
	case *ssa.Const:
		return constValue(key)
	case *ssa.Global:
		return fr.m.global(key)
	}
	if i, ok := fr.info.index[key]; ok {
		return fr.env[i]
	}
	panic(fmt.Sprintf("get: no value for %T: %v", key, key.Name()))
}

// global returns the address of a package-level variable, initialising the
// owning package on first touch when that is allowed.
func (m *Machine) global(g *ssa.Global) *value {
	if p, ok := m.globals[g]; ok {
		return p
	}
	pkg := g.Pkg
	if !m.inited[pkg] && !strings.HasPrefix(g.Name(), "init$guard") {
		if pkg == m.MainPkg {
			m.initPackage(pkg)
			if p, ok := m.globals[g]; ok {
				return p
			}
		} else if !allowedUninit(pkg.Pkg.Path(), g.Name()) {
			abort("read of package state that is not initialised: %s.%s (stack: %s)", pkg.Pkg.Path(), g.Name(), m.Stack())
		}
	}
	cell := zero(deref(g.Type()))
	p := &cell
	m.globals[g] = p
	return p
}

// allowedUninit lists std globals whose zero value is the correct initial state.
func allowedUninit(pkg, name string) bool {
	switch pkg + "." + name {
	case "errors.errorType":
		return true
	}
	return false
}

func deref(t types.Type) types.Type {
	if p, ok := t.Underlying().(*types.Pointer); ok {
		return p.Elem()
	}
	panic("deref of non-pointer " + t.String())
}

// initPackage runs pkg's init function; init calls to other packages are skipped.
func (m *Machine) initPackage(pkg *ssa.Package) {
	if m.inited[pkg] {
		return
	}
	m.inited[pkg] = true
	for _, mem := range pkg.Members {
		if g, ok := mem.(*ssa.Global); ok {
			if _, have := m.globals[g]; !have {
				cell := zero(deref(g.Type()))
				m.globals[g] = &cell
			}
		}
	}
	m.call(nil, token.NoPos, pkg.Func("init"), nil)
}

// CallFunc runs fn with args in a fresh top-level frame.
func (m *Machine) CallFunc(fn *ssa.Function, args ...value) value {
	return m.call(nil, token.NoPos, fn, args)
}

func (m *Machine) call(caller *frame, pos token.Pos, fn value, args []value) value {
	switch fn := fn.(type) {
	case *ssa.Function:
		if fn == nil {
			m.fault("call of nil function")
		}
		return m.callSSA(caller, pos, fn, args, nil)
	case *closure:
		if fn == nil {
			m.fault("call of nil function")
		}
		return m.callSSA(caller, pos, fn.Fn, args, fn.Env)
	case *ssa.Builtin:
		return m.callBuiltin(caller, pos, fn, args)
	}
	panic(fmt.Sprintf("cannot call %T", fn))
}

func (m *Machine) callSSA(caller *frame, pos token.Pos, fn *ssa.Function, args []value, env []value) value {
	fi := m.info(fn)
	name := fi.name
	if fi.skip {
		return nil // initialisers of other packages are not run
	}
	fr := &frame{m: m, caller: caller, fn: fn}
	if ext := fi.ext; ext != nil {
		m.Stubs[name]++
		saved := m.cur
		fr.instr = nil
		m.cur = fr
		defer func() { m.cur = saved }()
		return ext(m, fr, args)
	}
	if fn.Blocks == nil {
		abort("no code for function %s (assembly, external or synthetic)", name)
	}
	if fi.inMain {
		m.Called[name]++
	}
	m.depth++
	if m.depth > m.MaxDepth {
		m.depth--
		panic(vmAbort{"call depth budget exhausted in " + name})
	}
	saved := m.cur
	m.cur = fr
	defer func() { m.depth--; m.cur = saved }()

	fr.info = fi
	fr.env = make([]value, fr.info.n)
	fr.block = fn.Blocks[0]
	for _, l := range fn.Locals {
		cell := zero(deref(l.Type()))
		fr.set(l, &cell)
	}
	if len(args) != len(fn.Params) {
		panic(fmt.Sprintf("call %s: %d args for %d params", name, len(args), len(fn.Params)))
	}
	for i, p := range fn.Params {
		fr.set(p, args[i])
	}
	for i, fv := range fn.FreeVars {
		fr.set(fv, env[i])
	}
	if m.Hooks.OnEnter != nil {
		m.Hooks.OnEnter(m, fn, args)
		if m.Hooks.OnLeave != nil {
			defer m.Hooks.OnLeave(m, fn)
		}
	}
	for fr.block != nil {
		m.runFrame(fr)
	}
	return fr.result
}

func (m *Machine) runFrame(fr *frame) {
	defer func() {
		if fr.block == nil {
			return // normal return
		}
		r := recover()
		switch r.(type) {
		case *targetPanic:
		case vmAbort, pathEnd:
			panic(r)
		default:
			// a bug in the interpreter itself (or a host runtime error): never a verdict
			if re, ok := r.(runtime.Error); ok {
				buf := make([]byte, 4096)
				n := runtime.Stack(buf, false)
				panic(vmAbort{fmt.Sprintf("vm-internal: %v at %s\n%s", re, m.where(), buf[:n])})
			}
			panic(vmAbort{fmt.Sprintf("vm-internal: %v at %s", r, m.where())})
		}
		m.cur = fr
		fr.panicking = true
		fr.panic = r
		fr.runDefers()
		fr.block = fr.fn.Recover
		if fr.block == nil {
			// recovered, no named results: return zero values
			fr.result = zeroResult(fr.fn)
		}
	}()
	for {
		instrs := fr.block.Instrs
		i := 0
		// parallel phi assignment
		if _, ok := instrs[0].(*ssa.Phi); ok {
			pred := -1
			for k, p := range fr.block.Preds {
				if p == fr.prevBlock {
					pred = k
					break
				}
			}
			var tmp [8]value
			vals := tmp[:0]
			for ; i < len(instrs); i++ {
				phi, ok := instrs[i].(*ssa.Phi)
				if !ok {
					break
				}
				vals = append(vals, fr.get(phi.Edges[pred]))
			}
			for k := 0; k < i; k++ {
				fr.set(instrs[k].(*ssa.Phi), vals[k])
			}
		}
		jumped := false
		for ; i < len(instrs); i++ {
			m.Steps++
			if m.Steps > m.MaxSteps {
				panic(vmAbort{"step budget exhausted (unwinding failure) at " + m.where()})
			}
			fr.instr = instrs[i]
			switch m.visit(fr, instrs[i]) {
			case kReturn:
				return
			case kJump:
				jumped = true
			}
			if jumped {
				break
			}
		}
		if !jumped {
			panic("block fell through: " + fr.fn.String())
		}
	}
}

func zeroResult(fn *ssa.Function) value {
	res := fn.Signature.Results()
	switch res.Len() {
	case 0:
		return nil
	case 1:
		return zero(res.At(0).Type())
	}
	return zero(res)
}

func (fr *frame) runDefer(d *deferred) {
	var ok bool
	defer func() {
		if !ok {
			r := recover()
			switch r.(type) {
			case *targetPanic:
				fr.panicking = true
				fr.panic = r
			default:
				panic(r)
			}
		}
	}()
	fr.m.cur = fr
	fr.m.call(fr, d.instr.Pos(), d.fn, d.args)
	ok = true
}

func (fr *frame) runDefers() {
	for d := fr.defers; d != nil; d = d.tail {
		fr.runDefer(d)
	}
	fr.defers = nil
	if fr.panicking {
		panic(fr.panic)
	}
}

type continuation int

const (
	kNext continuation = iota
	kReturn
	kJump
)

func (m *Machine) store(fr *frame, addr *value, v value) {
	if addr == nil {
		m.fault("nil pointer dereference (store)")
	}
	if m.Hooks.OnStore != nil {
		m.Hooks.OnStore(m, addr, *addr, v, fr)
	}
	*addr = copyVal(v)
}

func (m *Machine) visit(fr *frame, instr ssa.Instruction) continuation {
	switch instr := instr.(type) {
	case *ssa.DebugRef:

	case *ssa.UnOp:
		fr.set(instr, m.unop(instr, fr.get(instr.X)))

	case *ssa.BinOp:
		fr.set(instr, m.binop(instr.Op, instr.X.Type(), fr.get(instr.X), fr.get(instr.Y)))

	case *ssa.Call:
		fn, args := m.prepareCall(fr, &instr.Call)
		r := m.call(fr, instr.Pos(), fn, args)
		m.cur = fr
		fr.set(instr, r)

	case *ssa.ChangeInterface:
		fr.set(instr, fr.get(instr.X))

	case *ssa.ChangeType:
		fr.set(instr, fr.get(instr.X))

	case *ssa.Convert:
		fr.set(instr, m.conv(instr.Type(), instr.X.Type(), fr.get(instr.X)))

	case *ssa.MakeInterface:
		fr.set(instr, iface{t: instr.X.Type(), v: fr.get(instr.X)})

	case *ssa.Extract:
		fr.set(instr, fr.get(instr.Tuple).(tuple)[instr.Index])

	case *ssa.Slice:
		fr.set(instr, m.sliceOp(instr, fr.get(instr.X), fr.get(instr.Low), fr.get(instr.High), fr.get(instr.Max)))

	case *ssa.Return:
		switch len(instr.Results) {
		case 0:
		case 1:
			fr.result = fr.get(instr.Results[0])
		default:
			res := make(tuple, len(instr.Results))
			for i, r := range instr.Results {
				res[i] = fr.get(r)
			}
			fr.result = res
		}
		fr.block = nil
		return kReturn

	case *ssa.RunDefers:
		fr.runDefers()
		m.cur = fr

	case *ssa.Panic:
		v := fr.get(instr.X)
		tp := &targetPanic{v: v, site: m.where()}
		if iv, ok := v.(iface); ok {
			tp.origin = m.originOf(iv)
		}
		panic(tp)

	case *ssa.Store:
		m.store(fr, fr.get(instr.Addr).(*value), fr.get(instr.Val))

	case *ssa.If:
		succ := 1
		if m.truth(fr.get(instr.Cond), "branch") {
			succ = 0
		}
		fr.prevBlock, fr.block = fr.block, fr.block.Succs[succ]
		return kJump

	case *ssa.Jump:
		fr.prevBlock, fr.block = fr.block, fr.block.Succs[0]
		return kJump

	case *ssa.Defer:
		fn, args := m.prepareCall(fr, &instr.Call)
		if instr.DeferStack != nil {
			abort("defer stacks (range-over-func) not supported")
		}
		fr.defers = &deferred{fn: fn, args: args, instr: instr, tail: fr.defers}

	case *ssa.Go:
		abort("go statement not supported")

	case *ssa.MakeChan, *ssa.Send, *ssa.Select:
		abort("channels not supported")

	case *ssa.Alloc:
		cell := zero(deref(instr.Type()))
		if instr.Heap {
			fr.set(instr, &cell)
		} else {
			// locals are re-zeroed each time the Alloc executes
			p := fr.get(instr).(*value)
			*p = cell
		}

	case *ssa.MakeSlice:
		n := asInt(m.concretize(fr.get(instr.Len)))
		c := asInt(m.concretize(fr.get(instr.Cap)))
		if n < 0 || c < n || c > 1<<24 {
			m.fault("makeslice: len out of range")
		}
		sl := make([]value, c)
		te := instr.Type().Underlying().(*types.Slice).Elem()
		for i := range sl {
			sl[i] = zero(te)
		}
		fr.set(instr, sl[:n])

	case *ssa.MakeMap:
		fr.set(instr, newMap())

	case *ssa.Range:
		fr.set(instr, m.rangeIter(fr.get(instr.X), instr.X.Type()))

	case *ssa.Next:
		fr.set(instr, fr.get(instr.Iter).(iter).next(m))

	case *ssa.FieldAddr:
		p := fr.get(instr.X).(*value)
		if p == nil {
			m.fault("nil pointer dereference (field address)")
		}
		fr.set(instr, &(*p).(structure)[instr.Field])

	case *ssa.Field:
		fr.set(instr, copyVal(fr.get(instr.X).(structure)[instr.Field]))

	case *ssa.IndexAddr:
		x := fr.get(instr.X)
		idx := fr.get(instr.Index)
		switch x := x.(type) {
		case []value:
			i := m.checkIndex(idx, len(x), "slice")
			fr.set(instr, &x[i])
		case *value:
			if x == nil {
				m.fault("nil pointer dereference (array index)")
			}
			a := (*x).(array)
			i := m.checkIndex(idx, len(a), "array")
			fr.set(instr, &a[i])
		default:
			panic(fmt.Sprintf("IndexAddr on %T", x))
		}

	case *ssa.Index:
		x := fr.get(instr.X)
		idx := fr.get(instr.Index)
		switch x := x.(type) {
		case array:
			i := m.checkIndex(idx, len(x), "array")
			fr.set(instr, copyVal(x[i]))
		case string:
			i := m.checkIndex(idx, len(x), "string")
			fr.set(instr, uint64(x[i]))
		case *symstr:
			i := m.checkIndex(idx, len(x.s), "string")
			if x.b[i] != nil {
				fr.set(instr, &symv{c: uint64(x.s[i]), t: x.b[i]})
			} else {
				fr.set(instr, uint64(x.s[i]))
			}
		default:
			panic(fmt.Sprintf("Index on %T", x))
		}

	case *ssa.Lookup:
		fr.set(instr, m.lookup(instr, fr.get(instr.X), fr.get(instr.Index)))

	case *ssa.MapUpdate:
		mp := fr.get(instr.Map).(*mapv)
		if mp == nil {
			m.fault("assignment to entry in nil map")
		}
		if m.Hooks.OnMap != nil {
			m.Hooks.OnMap(m, mp, fr)
		}
		if hk, ok := fr.get(instr.Key).(*hashv); ok {
			if i := m.findHashKey(mp, hk); i >= 0 {
				mp.hkeys[i].v = copyVal(fr.get(instr.Value))
			} else {
				mp.hkeys = append(mp.hkeys, hashEntry{hk, copyVal(fr.get(instr.Value))})
			}
			return kNext
		}
		if key := fr.get(instr.Key); symKey(key) {
			m.symMapSet(instr.Map.Type().Underlying().(*types.Map).Key(), mp, key, copyVal(fr.get(instr.Value)))
			return kNext
		}
		k := m.mapKey(fr.get(instr.Key))
		if len(mp.skeys) > 0 {
			m.symMapSet(instr.Map.Type().Underlying().(*types.Map).Key(), mp, k, copyVal(fr.get(instr.Value)))
			return kNext
		}
		mp.set(k, copyVal(fr.get(instr.Value)))

	case *ssa.TypeAssert:
		fr.set(instr, m.typeAssert(instr, fr.get(instr.X).(iface)))

	case *ssa.MakeClosure:
		var bindings []value
		for _, b := range instr.Bindings {
			bindings = append(bindings, fr.get(b))
		}
		fr.set(instr, &closure{instr.Fn.(*ssa.Function), bindings})

	case *ssa.Phi:
		panic("phi outside block head")

	case *ssa.SliceToArrayPointer:
		abort("slice to array pointer conversion not supported")

	default:
		panic(fmt.Sprintf("unexpected instruction %T", instr))
	}
	return kNext
}

// findHashKey scans the abstract-hash entries of mp, deciding equality with
// each (one decision per stored key), and returns the index of the match.
func (m *Machine) findHashKey(mp *mapv, hk *hashv) int {
	if len(mp.m) > 0 {
		abort("map mixes abstract and concrete hash keys")
	}
	for i, e := range mp.hkeys {
		if m.truth(m.hashEq(e.k, hk), "hash-key-equal") {
			return i
		}
	}
	return -1
}

// symKey: the key is a string (possibly inside an interface) with symbolic bytes.
func symKey(k value) bool {
	switch k := k.(type) {
	case *symstr:
		return true
	case iface:
		_, ok := k.v.(*symstr)
		return ok
	}
	return false
}

// symMapFind decides equality of key with the stored keys one by one.
func (m *Machine) symMapFind(kt types.Type, mp *mapv, key value) (concrete value, sidx int, found bool) {
	for _, k := range mp.keys {
		if _, ok := mp.m[k]; !ok {
			continue
		}
		if m.truth(m.equals(kt, k, key), "map-key-equal") {
			return k, -1, true
		}
	}
	for i, e := range mp.skeys {
		if m.truth(m.equals(kt, e.k, key), "map-key-equal") {
			return nil, i, true
		}
	}
	return nil, -1, false
}

func (m *Machine) symMapGet(kt types.Type, mp *mapv, key value) (value, bool) {
	ck, si, found := m.symMapFind(kt, mp, key)
	if !found {
		return nil, false
	}
	if si >= 0 {
		return mp.skeys[si].v, true
	}
	return mp.m[ck], true
}

func (m *Machine) symMapSet(kt types.Type, mp *mapv, key, val value) {
	ck, si, found := m.symMapFind(kt, mp, key)
	switch {
	case found && si >= 0:
		mp.skeys[si].v = val
	case found:
		mp.m[ck] = val
	case symKey(key):
		mp.skeys = append(mp.skeys, symEntry{key, val})
	default:
		mp.set(key, val)
	}
}

// mapKey makes a key concrete and comparable.
func (m *Machine) mapKey(k value) value {
	k = m.concretizeDeep(k)
	switch k.(type) {
	case structure, array:
		abort("struct/array map keys not supported")
	}
	return k
}

func (m *Machine) lookup(instr *ssa.Lookup, x, idx value) value {
	switch x := x.(type) {
	case *mapv:
		var v value
		var ok bool
		if hk, isH := idx.(*hashv); isH {
			if x != nil {
				if i := m.findHashKey(x, hk); i >= 0 {
					v, ok = x.hkeys[i].v, true
				}
			}
		} else if x != nil && (symKey(idx) || len(x.skeys) > 0) {
			v, ok = m.symMapGet(instr.X.Type().Underlying().(*types.Map).Key(), x, idx)
		} else {
			if x != nil && len(x.hkeys) > 0 {
				abort("map mixes abstract and concrete hash keys")
			}
			v, ok = x.get(m.mapKey(idx))
		}
		if !ok {
			v = zero(instr.X.Type().Underlying().(*types.Map).Elem())
		} else {
			v = copyVal(v)
		}
		if instr.CommaOk {
			return tuple{v, ok}
		}
		return v
	case string:
		i := m.checkIndex(idx, len(x), "string")
		return uint64(x[i])
	case *symstr:
		i := m.checkIndex(idx, len(x.s), "string")
		if x.b[i] != nil {
			return &symv{c: uint64(x.s[i]), t: x.b[i]}
		}
		return uint64(x.s[i])
	}
	panic(fmt.Sprintf("lookup on %T", x))
}

func (m *Machine) prepareCall(fr *frame, call *ssa.CallCommon) (fn value, args []value) {
	v := fr.get(call.Value)
	if call.Method == nil {
		fn = v
	} else {
		recv := v.(iface)
		if recv.t == nil {
			m.fault("nil pointer dereference (method " + call.Method.Name() + " invoked on nil interface)")
		}
		f := m.Prog.LookupMethod(recv.t, call.Method.Pkg(), call.Method.Name())
		if f == nil {
			panic(fmt.Sprintf("method set of %v lacks %s", recv.t, call.Method))
		}
		fn = f
		args = append(args, recv.v)
	}
	for _, a := range call.Args {
		args = append(args, fr.get(a))
	}
	return
}

// originOf: package that created an error value (for the panic classifier).
func (m *Machine) originOf(v iface) string {
	if p, ok := v.v.(*value); ok && p != nil {
		if o, ok := m.Scratch["origin"].(map[*value]string); ok {
			return o[p]
		}
	}
	return ""
}

func (m *Machine) noteOrigin(p *value, fr *frame) {
	o, ok := m.Scratch["origin"].(map[*value]string)
	if !ok {
		o = map[*value]string{}
		m.Scratch["origin"] = o
	}
	// the nearest caller frame that is not in errors/fmt
	for f := fr; f != nil; f = f.caller {
		pk := f.fn.Pkg
		if pk == nil && f.fn.Parent() != nil {
			pk = f.fn.Parent().Pkg
		}
		if pk == nil {
			continue
		}
		path := pk.Pkg.Path()
		if path == "errors" || path == "fmt" {
			continue
		}
		o[p] = path
		return
	}
}

// ---- builtins ----

func (m *Machine) callBuiltin(caller *frame, pos token.Pos, fn *ssa.Builtin, args []value) value {
	switch fn.Name() {
	case "append":
		if len(args) == 1 {
			return args[0]
		}
		if s, ok := args[1].(string); ok {
			args[1] = m.conv(types.NewSlice(types.Typ[types.Byte]), types.Typ[types.String], s)
		} else if s, ok := args[1].(*symstr); ok {
			args[1] = m.conv(types.NewSlice(types.Typ[types.Byte]), types.Typ[types.String], s)
		}
		a, b := args[0].([]value), args[1].([]value)
		if len(b) == 0 {
			return a
		}
		if len(a)+len(b) <= cap(a) {
			r := a[:len(a)+len(b)]
			for i, v := range b {
				if m.Hooks.OnStore != nil {
					m.Hooks.OnStore(m, &r[len(a)+i], r[len(a)+i], v, caller)
				}
				r[len(a)+i] = copyVal(v)
			}
			return r
		}
		nc := 2*cap(a) + len(b)
		r := make([]value, len(a)+len(b), nc)
		copy(r, a)
		for i, v := range b {
			r[len(a)+i] = copyVal(v)
		}
		// spare capacity holds zero values of the element type
		if sig, ok := fn.Type().(*types.Signature); ok && sig.Params().Len() > 0 {
			if st, ok := sig.Params().At(0).Type().Underlying().(*types.Slice); ok {
				full := r[:nc]
				for i := len(r); i < nc; i++ {
					full[i] = zero(st.Elem())
				}
			}
		}
		return r

	case "copy":
		dst := args[0].([]value)
		var src []value
		switch s := args[1].(type) {
		case []value:
			src = s
		case string, *symstr:
			src = m.conv(types.NewSlice(types.Typ[types.Byte]), types.Typ[types.String], s).([]value)
		}
		n := len(dst)
		if len(src) < n {
			n = len(src)
		}
		tmp := make([]value, n)
		copy(tmp, src[:n])
		for i := 0; i < n; i++ {
			if m.Hooks.OnStore != nil {
				m.Hooks.OnStore(m, &dst[i], dst[i], tmp[i], caller)
			}
			dst[i] = copyVal(tmp[i])
		}
		return int64(n)

	case "len":
		switch x := args[0].(type) {
		case string:
			return int64(len(x))
		case *symstr:
			return int64(len(x.s))
		case []value:
			return int64(len(x))
		case array:
			return int64(len(x))
		case *value:
			return int64(len((*x).(array)))
		case *mapv:
			return int64(x.length())
		}
		panic(fmt.Sprintf("len of %T", args[0]))

	case "cap":
		switch x := args[0].(type) {
		case []value:
			return int64(cap(x))
		case array:
			return int64(len(x))
		case *value:
			return int64(len((*x).(array)))
		}
		panic(fmt.Sprintf("cap of %T", args[0]))

	case "delete":
		args[0].(*mapv).del(m.mapKey(args[1]))
		return nil

	case "panic":
		panic(&targetPanic{v: args[0], site: m.where()})

	case "recover":
		return m.doRecover(caller)

	case "print", "println":
		return nil

	case "min", "max":
		abort("builtin %s not supported", fn.Name())

	case "ssa:wrapnilchk":
		recv := args[0]
		if p, ok := recv.(*value); ok && p == nil {
			m.fault(fmt.Sprintf("value method %s.%s called using nil pointer", conc(args[1]), conc(args[2])))
		}
		return recv
	}
	panic("unknown builtin " + fn.Name())
}

func (m *Machine) doRecover(caller *frame) value {
	if caller != nil && !caller.panicking && caller.caller != nil && caller.caller.panicking {
		caller.caller.panicking = false
		p := caller.caller.panic
		caller.caller.panic = nil
		switch p := p.(type) {
		case *targetPanic:
			if p.runtime {
				return m.runtimeErrorValue(p.msg)
			}
			return p.v
		default:
			panic(fmt.Sprintf("unexpected panic %T in recover", p))
		}
	}
	return iface{}
}

// runtimeErrorValue builds an error value standing for a runtime.Error.
func (m *Machine) runtimeErrorValue(msg string) value {
	// represented as *errors.errorString with a marker in Scratch
	pkg := m.Prog.ImportedPackage("errors")
	if pkg == nil {
		abort("package errors not loaded")
	}
	t := pkg.Type("errorString").Type()
	var cell value = structure{"runtime error: " + msg}
	p := &cell
	re, _ := m.Scratch["runtimeErrors"].(map[*value]bool)
	if re == nil {
		re = map[*value]bool{}
		m.Scratch["runtimeErrors"] = re
	}
	re[p] = true
	return iface{t: types.NewPointer(t), v: p}
}
