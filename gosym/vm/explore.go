package vm

import (
	"fmt"
	"strings"
	"time"

	"golang.org/x/tools/go/ssa"

	"gosym/sym"
)

// Instance is one harness run configuration (the unit of parallelism).
type Instance struct {
	ID      string
	Harness string
	Params  map[string]string
	Extra   interface{} // check-specific payload (e.g. the oracle's AST)
}

type Outcome int

const (
	PathOK Outcome = iota
	PathAssumeFail
	PathAbort  // inconclusive: unsupported construct, budget, vm-internal
	PathPanic  // a Go panic escaped the harness function
)

func (o Outcome) String() string {
	return [...]string{"ok", "assume-fail", "abort", "escaped-panic"}[o]
}

type PathReport struct {
	Outcome Outcome
	Reason  string
	PC      []Decision
	PS      *PathState
	Model   sym.Model
	Steps   int64
	Panic   *targetPanic
}

// Violation is a failed obligation together with the inputs that make it fail.
type Violation struct {
	Instance *Instance
	Label    string
	Info     string
	Model    sym.Model
	Inputs   map[string]string
	Order    []string
	Observed []Observation // what the executor predicts the real code reports under Model
	Notes    []string
	Concrete bool          // failed on the explored path itself (no solver call needed)
}

type Stats struct {
	Paths, AssumeFails, Aborts, EscapedPanics int
	Obligations, ObligationsHeld             int
	FlipSat, FlipUnsat, FlipUnknown          int
	CacheHits, CoreHits, LemmaFallbacks      int
	ObligTime, FlipTime, RunTime             time.Duration
	Divergences                              int
	Decisions                                int64
	Steps                                    int64
	MaxPC                                    int
	Incomplete                               []string // reasons the exploration is not exhaustive
	AbortReasons                             map[string]int
}

type Explorer struct {
	P      *Program
	M      *Machine
	Ctx    *sym.Ctx
	S      *sym.Solver // branch flips (assumption literals, unsat cores)
	SO     *sym.Solver // obligations (push/pop: nothing of an obligation outlives its query)
	Inst   *Instance
	Stats  Stats
	Viol   []Violation
	OnPath func(e *Explorer, r *PathReport)

	BudgetViolations bool
	MaxPaths   int
	Deadline   time.Time
	MaxViol    int
	models     []cachedModel
	cores      map[int][][]int // negated-literal ID -> unsat cores (literal IDs of the prefix)
	SampleKeep int
	Samples    []*PathReport
}

type cachedModel struct {
	m    sym.Model
	memo map[int]sym.Val
}

type workItem struct {
	model     sym.Model
	bound     int   // decisions [0,bound) are forced
	expectID  []int // term IDs of the forced prefix
	expectPol []bool
	fromCache bool
	flipLits  []*sym.Term // the query that produced model (for solver retry on divergence)
}

func NewExplorer(p *Program, s *sym.Solver) *Explorer {
	m := NewMachine(p.Prog, p.Pkg)
	registerHarness(m)
	registerOracle(m)
	registerFrame(m)
	registerOracleScalars(m)
	registerReentry(m)
	return &Explorer{P: p, M: m, S: s, MaxPaths: 200000, MaxViol: 3, SampleKeep: 3}
}

// RunPath executes the harness once under model.
func (e *Explorer) RunPath(model sym.Model) *PathReport {
	m := e.M
	full := sym.Model{}
	for k, v := range model {
		full[k] = v
	}
	m.ResetPath(e.Ctx, full)
	ps := m.PS()
	for k, v := range e.Inst.Params {
		ps.Params[k] = v
	}
	m.Scratch["instance"] = e.Inst
	rep := &PathReport{PS: ps}
	fn := e.P.Pkg.Func(e.Inst.Harness)
	if fn == nil {
		rep.Outcome = PathAbort
		rep.Reason = "harness function not found: " + e.Inst.Harness
		return rep
	}
	func() {
		defer func() {
			if r := recover(); r != nil {
				switch r := r.(type) {
				case pathEnd:
					if r.reason == "assume" {
						rep.Outcome = PathAssumeFail
					} else {
						rep.Outcome = PathOK
					}
					rep.Reason = r.reason
				case vmAbort:
					rep.Outcome = PathAbort
					rep.Reason = r.reason
				case *targetPanic:
					rep.Outcome = PathPanic
					rep.Panic = r
					if r.runtime {
						rep.Reason = "runtime error: " + r.msg + " at " + r.site
					} else {
						rep.Reason = "panic: " + toString(r.v) + " at " + r.site
					}
				default:
					rep.Outcome = PathAbort
					rep.Reason = fmt.Sprintf("vm-internal: %v", r)
				}
			}
		}()
		e.runHarness(fn)
	}()
	for _, l := range m.Lossy {
		e.incomplete("lossy path: " + l)
	}
	rep.PC = append([]Decision(nil), m.PC...)
	rep.Model = m.Model
	rep.Steps = m.Steps
	return rep
}

func (e *Explorer) runHarness(fn *ssa.Function) {
	e.M.initPackage(e.P.Pkg)
	e.M.CallFunc(fn)
}

func (e *Explorer) lits(pc []Decision) []*sym.Term {
	out := make([]*sym.Term, len(pc))
	for i, d := range pc {
		out[i] = d.Lit(e.Ctx)
	}
	return out
}

func (e *Explorer) incomplete(reason string) {
	if i := strings.Index(reason, " at "); i > 0 && strings.Contains(reason, "budget exhausted") {
		reason = reason[:i]
	}
	if len(reason) > 300 {
		reason = reason[:300] + "…"
	}
	for _, r := range e.Stats.Incomplete {
		if r == reason {
			return
		}
	}
	e.Stats.Incomplete = append(e.Stats.Incomplete, reason)
}

// tryCache looks for a remembered model that satisfies all lits.
func (e *Explorer) tryCache(lits []*sym.Term) sym.Model {
	for k := len(e.models) - 1; k >= 0; k-- {
		cm := &e.models[k]
		ok := true
		for j := len(lits) - 1; j >= 0; j-- {
			if !sym.Eval(lits[j], cm.m, cm.memo).B() {
				ok = false
				break
			}
		}
		if ok {
			return cm.m
		}
	}
	return nil
}

func (e *Explorer) remember(m sym.Model) {
	if len(e.models) >= 24 {
		e.models = e.models[1:]
	}
	e.models = append(e.models, cachedModel{m: m, memo: map[int]sym.Val{}})
}

// Explore enumerates all feasible paths of the instance's harness.
func (e *Explorer) Explore(inst *Instance) {
	e.Inst = inst
	e.Ctx = sym.NewCtx()
	e.S.Rebind(e.Ctx)
	if e.SO != nil {
		e.SO.Rebind(e.Ctx)
	}
	e.Stats = Stats{AbortReasons: map[string]int{}}
	e.Viol = nil
	e.models = nil
	e.cores = map[int][][]int{}
	e.Samples = nil
	stack := []workItem{{model: sym.Model{}}}
	for len(stack) > 0 {
		if e.Stats.Paths+e.Stats.AssumeFails+e.Stats.Aborts >= e.MaxPaths {
			e.incomplete(fmt.Sprintf("path budget %d exhausted", e.MaxPaths))
			break
		}
		if !e.Deadline.IsZero() && time.Now().After(e.Deadline) {
			e.incomplete("time budget exhausted")
			break
		}
		if e.behaviouralViolations() >= e.MaxViol {
			e.incomplete("stopped after violations")
			break
		}
		it := stack[len(stack)-1]
		stack = stack[:len(stack)-1]
		tr := time.Now()
		rep := e.RunPath(it.model)
		e.Stats.RunTime += time.Since(tr)
		// divergence check: the run must follow the forced prefix
		div := len(rep.PC) < it.bound
		if !div {
			for k := 0; k < it.bound; k++ {
				if rep.PC[k].T.ID != it.expectID[k] || rep.PC[k].Taken != it.expectPol[k] {
					div = true
					break
				}
			}
		}
		if div {
			if it.fromCache {
				// the remembered model was incomplete for this path: ask the solver
				res, model := e.S.CheckAssuming(it.flipLits, true)
				switch res {
				case sym.Sat:
					it.model = model
					it.fromCache = false
					stack = append(stack, it)
				case sym.Unknown:
					e.Stats.FlipUnknown++
					e.incomplete("solver unknown on a branch flip")
				}
				continue
			}
			e.Stats.Divergences++
			detail := fmt.Sprintf("len(PC)=%d bound=%d", len(rep.PC), it.bound)
			for k := 0; k < it.bound && k < len(rep.PC); k++ {
				if rep.PC[k].T.ID != it.expectID[k] || rep.PC[k].Taken != it.expectPol[k] {
					detail += fmt.Sprintf(" first mismatch at %d: got %s=%v (%s), expected term %d=%v", k, rep.PC[k].T, rep.PC[k].Taken, rep.PC[k].Why, it.expectID[k], it.expectPol[k])
					break
				}
			}
			e.incomplete("divergence: re-execution under the solver's model left the predicted path (" + rep.Reason + "; " + detail + ")")
			continue
		}
		e.Stats.Steps += rep.Steps
		e.Stats.Decisions += int64(len(rep.PC))
		if len(rep.PC) > e.Stats.MaxPC {
			e.Stats.MaxPC = len(rep.PC)
		}
		switch rep.Outcome {
		case PathOK:
			e.Stats.Paths++
		case PathAssumeFail:
			e.Stats.AssumeFails++
		case PathAbort:
			e.Stats.Aborts++
			e.Stats.AbortReasons[rep.Reason]++
			if e.BudgetViolations && strings.Contains(rep.Reason, "step budget exhausted") {
				e.Stats.Obligations++
				e.Viol = append(e.Viol, Violation{Instance: e.Inst, Label: "terminates", Info: firstLine(rep.Reason), Model: rep.Model,
					Inputs: rep.PS.Inputs, Order: rep.PS.InputOrder, Observed: rep.PS.Observations})
			} else {
				e.incomplete("aborted path: " + firstLine(rep.Reason))
			}
		case PathPanic:
			e.Stats.EscapedPanics++
			e.Stats.Paths++
		}
		lits := e.lits(rep.PC)
		// obligations first (they only need prefixes)
		e.checkObligations(rep, lits, it.bound)
		if e.OnPath != nil {
			e.OnPath(e, rep)
		}
		if rep.Outcome == PathOK && len(e.Samples) < e.SampleKeep {
			e.Samples = append(e.Samples, rep)
		}
		// flips, deepest first
		pos := make(map[int]int, len(lits))
		for k, l := range lits {
			pos[l.ID] = k
		}
		for i := len(rep.PC) - 1; i >= it.bound; i-- {
			d := rep.PC[i]
			if d.Fixed {
				continue
			}
			neg := e.Ctx.Not(lits[i])
			q := append(append([]*sym.Term(nil), lits[:i]...), neg)
			var model sym.Model
			fromCache := false
			if e.coreHit(neg, lits[:i], pos) {
				e.Stats.CoreHits++
				continue
			}
			{
				tq := time.Now()
				res, mod := e.S.CheckAssuming(q, true)
				e.Stats.FlipTime += time.Since(tq)
				switch res {
				case sym.Unsat:
					e.Stats.FlipUnsat++
					if e.S.LastCore != nil {
						core := make([]int, 0, len(e.S.LastCore))
						for _, l := range e.S.LastCore {
							if l != neg {
								core = append(core, l.ID)
							}
						}
						if len(e.cores[neg.ID]) < 64 {
							e.cores[neg.ID] = append(e.cores[neg.ID], core)
						}
					}
					continue
				case sym.Unknown:
					e.Stats.FlipUnknown++
					e.incomplete("solver unknown on a branch flip")
					continue
				}
				e.Stats.FlipSat++
				model = mod
			}
			w := workItem{model: model, bound: i + 1, fromCache: fromCache, flipLits: q}
			w.expectID = make([]int, i+1)
			w.expectPol = make([]bool, i+1)
			for k := 0; k <= i; k++ {
				w.expectID[k] = rep.PC[k].T.ID
				w.expectPol[k] = rep.PC[k].Taken
			}
			w.expectPol[i] = !rep.PC[i].Taken
			stack = append(stack, w)
		}
	}
}

// coreHit: a remembered unsat core for ¬lit is contained in the prefix.
func (e *Explorer) coreHit(neg *sym.Term, prefix []*sym.Term, pos map[int]int) bool {
	for _, core := range e.cores[neg.ID] {
		ok := true
		for _, id := range core {
			if p, in := pos[id]; !in || p >= len(prefix) {
				ok = false
				break
			}
		}
		if ok {
			return true
		}
	}
	return false
}

func firstLine(s string) string {
	for i := 0; i < len(s); i++ {
		if s[i] == '\n' {
			return s[:i]
		}
	}
	return s
}

func (e *Explorer) checkObligations(rep *PathReport, lits []*sym.Term, bound int) {
	for _, ob := range rep.PS.Obligations {
		if ob.PCLen < bound {
			continue // checked on the parent path
		}
		e.Stats.Obligations++
		if !ob.Conc {
			e.addViolation(rep, ob, rep.Model, true)
			continue
		}
		if len(ob.Lemmas) > 0 {
			// prove the substituted equalities first (structure-determined values)
			conj := e.Ctx.And(ob.Lemmas...)
			ok := conj.IsTrue()
			if !ok && !conj.IsFalse() {
				res, _ := e.S.CheckAssuming(append(append([]*sym.Term(nil), lits[:ob.PCLen]...), e.Ctx.Not(conj)), false)
				ok = res == sym.Unsat
			}
			if !ok {
				if ob.Fallback == nil {
					e.incomplete("lemma of obligation " + ob.Label + " not provable and no fallback")
					continue
				}
				ob.T = ob.Fallback()
				e.Stats.LemmaFallbacks++
			}
		}
		if ob.T == nil || ob.T.IsTrue() {
			e.Stats.ObligationsHeld++
			continue
		}
		if ob.T.IsFalse() {
			// violated for every input of this path: any model of the prefix is a witness
			e.addViolation(rep, ob, rep.Model, true)
			continue
		}
		tq := time.Now()
		var res sym.Result
		var model sym.Model
		if e.SO != nil {
			e.SO.SetPrefix(lits[:ob.PCLen])
			res, model = e.SO.CheckWith(true, e.Ctx.Not(ob.T))
		} else {
			res, model = e.S.CheckAssuming(append(append([]*sym.Term(nil), lits[:ob.PCLen]...), e.Ctx.Not(ob.T)), true)
		}
		e.Stats.ObligTime += time.Since(tq)
		switch res {
		case sym.Unsat:
			e.Stats.ObligationsHeld++
		case sym.Unknown:
			e.incomplete("solver unknown on obligation " + ob.Label)
		case sym.Sat:
			// complete the model with this path's inputs for variables the query did not mention
			full := sym.Model{}
			for k, v := range rep.Model {
				full[k] = v
			}
			for k, v := range model {
				full[k] = v
			}
			e.addViolation(rep, ob, full, false)
		}
	}
}

// behaviouralViolations counts violations other than frame-monitor findings (a frame finding
// alone does not end the search for a behavioural counterexample).
func (e *Explorer) behaviouralViolations() int {
	n := 0
	for _, v := range e.Viol {
		if !strings.HasPrefix(v.Label, "frame:") {
			n++
		}
	}
	return n
}

func (e *Explorer) addViolation(rep *PathReport, ob Obligation, model sym.Model, concrete bool) {
	same := 0
	for _, v := range e.Viol {
		if v.Label == ob.Label {
			same++
		}
	}
	if same >= e.MaxViol {
		return // enough witnesses of this obligation
	}
	// re-execute under the violating model to obtain the complete inputs and the
	// executor's prediction of what the real code reports
	saved := e.M.PC
	r2 := e.RunPath(model)
	_ = saved
	failed := false
	info := ob.Info
	for _, o2 := range r2.PS.Obligations {
		if o2.Label == ob.Label && !o2.Conc {
			failed = true
			info = o2.Info
		}
	}
	if !failed {
		e.incomplete("violation model for " + ob.Label + " did not reproduce inside the executor (encoder inconsistency)")
		e.Stats.Divergences++
		return
	}
	e.Viol = append(e.Viol, Violation{
		Instance: e.Inst, Label: ob.Label, Info: info, Model: r2.Model,
		Inputs: r2.PS.Inputs, Order: r2.PS.InputOrder, Observed: r2.PS.Observations, Notes: r2.PS.Notes, Concrete: concrete,
	})
}
