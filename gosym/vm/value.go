// Package vm: a concolic interpreter for go/ssa. Heap, control flow, dynamic
// types and closures are concrete; scalars (bool, integers, float64) and
// string bytes may carry a symbolic shadow term next to their concrete value.
package vm

import (
	"fmt"
	"go/types"
	"math"
	"sort"
	"strings"

	"golang.org/x/tools/go/ssa"

	"gosym/sym"
)

// value is one of:
//
//	bool, int64 (signed integer kinds), uint64 (unsigned kinds), float64, string,
//	*symv (symbolic scalar), *symstr (string with symbolic bytes),
//	*value (pointer), []value (slice), array, structure, iface, tuple,
//	*mapv, *closure, *ssa.Function, *ssa.Builtin, *native, rvalue, iter
type value interface{}

type (
	tuple     []value
	array     []value
	structure []value
)

type iface struct {
	t types.Type
	v value
}

type closure struct {
	Fn  *ssa.Function
	Env []value
}

// symv is a scalar with a symbolic shadow. c is bool / int64 / uint64 / float64.
type symv struct {
	c value
	t *sym.Term
}

// symstr is a string of concrete length whose bytes may be symbolic
// (b[i] == nil means byte i is the concrete s[i]).
type symstr struct {
	s string
	b []*sym.Term
}

// mapv is a Go map; keys are concrete comparable values, except hash keys
// (hashv) which are compared by their preimage bytes.
type mapv struct {
	m     map[value]value
	keys  []value // insertion order (deterministic iteration)
	hkeys []hashEntry
	skeys []symEntry
}

// hashv is the result of FNV-64a over bytes of which some are symbolic. The
// hash function is abstracted: two hashv are equal iff their preimages are
// equal byte strings (a true 64-bit collision is outside every claim).
type hashv struct {
	c uint64
	s string      // concrete preimage of this path
	b []*sym.Term // per-byte terms (nil = concrete)
}

type hashEntry struct {
	k *hashv
	v value
}

// symEntry is a map entry whose key has symbolic bytes (string or interface
// holding a string); lookups decide equality with it instead of enumerating values.
type symEntry struct {
	k value
	v value
}

// native wraps a host object that the interpreted program treats as opaque
// (e.g. *regexp.Regexp).
type native struct {
	v interface{}
}

// rvalue is reflect.Value of an interpreted value.
type rvalue struct {
	v iface
}

type iter interface {
	next(m *Machine) tuple
}

type bad struct{}

// targetPanic is a Go panic raised by (or on behalf of) the interpreted program.
type targetPanic struct {
	v       value  // the panic value (an iface)
	runtime bool   // a Go run-time error (nil deref, bounds, div, type assertion)
	msg     string // description for run-time errors
	site    string // position where it was raised
	origin  string // package path of the function that created the value
}

// vmAbort ends the current path without a verdict (unsupported construct etc).
type vmAbort struct{ reason string }

// pathEnd ends the current path normally (failed assumption, harness stop).
type pathEnd struct{ reason string }

func abort(format string, a ...interface{}) {
	panic(vmAbort{fmt.Sprintf(format, a...)})
}

// ---- integer kinds ----

type ikind struct {
	w      int
	signed bool
}

func basicOf(t types.Type) *types.Basic {
	b, _ := t.Underlying().(*types.Basic)
	return b
}

func intKindOf(t types.Type) (ikind, bool) {
	b := basicOf(t)
	if b == nil {
		return ikind{}, false
	}
	switch b.Kind() {
	case types.Int, types.Int64, types.UntypedInt:
		return ikind{64, true}, true
	case types.Int8:
		return ikind{8, true}, true
	case types.Int16:
		return ikind{16, true}, true
	case types.Int32, types.UntypedRune:
		return ikind{32, true}, true
	case types.Uint, types.Uint64, types.Uintptr:
		return ikind{64, false}, true
	case types.Uint8:
		return ikind{8, false}, true
	case types.Uint16:
		return ikind{16, false}, true
	case types.Uint32:
		return ikind{32, false}, true
	}
	return ikind{}, false
}

func isFloat(t types.Type) bool {
	b := basicOf(t)
	return b != nil && (b.Kind() == types.Float64 || b.Kind() == types.UntypedFloat || b.Kind() == types.Float32)
}

func isString(t types.Type) bool {
	b := basicOf(t)
	return b != nil && b.Info()&types.IsString != 0
}

func isBool(t types.Type) bool {
	b := basicOf(t)
	return b != nil && b.Info()&types.IsBoolean != 0
}

func maskW(w int) uint64 {
	if w >= 64 {
		return ^uint64(0)
	}
	return (uint64(1) << uint(w)) - 1
}

// normInt truncates/sign-extends raw bits to kind k and returns the canonical value.
func normInt(k ikind, bits uint64) value {
	if k.signed {
		sh := uint(64 - k.w)
		return int64(bits<<sh) >> sh
	}
	return bits & maskW(k.w)
}

func bitsOf(v value) uint64 {
	switch v := v.(type) {
	case int64:
		return uint64(v)
	case uint64:
		return v
	case bool:
		if v {
			return 1
		}
		return 0
	case float64:
		return math.Float64bits(v)
	case *symv:
		return bitsOf(v.c)
	case *hashv:
		return v.c
	}
	panic(fmt.Sprintf("bitsOf: %T", v))
}

func conc(v value) value {
	switch v := v.(type) {
	case *symv:
		return v.c
	case *symstr:
		return v.s
	}
	return v
}

func asInt(v value) int64 {
	switch v := v.(type) {
	case int64:
		return v
	case uint64:
		return int64(v)
	case *symv:
		return asInt(v.c)
	}
	panic(fmt.Sprintf("asInt: %T", v))
}

func concStr(v value) string {
	switch v := v.(type) {
	case string:
		return v
	case *symstr:
		return v.s
	}
	panic(fmt.Sprintf("concStr: %T", v))
}

// ---- zero values, copy, load/store ----

func zero(t types.Type) value {
	switch t := t.(type) {
	case *types.Basic:
		if t.Kind() == types.UntypedNil {
			panic("untyped nil has no zero value")
		}
		if t.Info()&types.IsUntyped != 0 {
			t = types.Default(t).(*types.Basic)
		}
		switch t.Kind() {
		case types.Bool:
			return false
		case types.Int, types.Int8, types.Int16, types.Int32, types.Int64:
			return int64(0)
		case types.Uint, types.Uint8, types.Uint16, types.Uint32, types.Uint64, types.Uintptr:
			return uint64(0)
		case types.Float32, types.Float64:
			return float64(0)
		case types.String:
			return ""
		case types.UnsafePointer:
			return (*value)(nil)
		case types.Complex64, types.Complex128:
			return complex128(0)
		}
	case *types.Pointer:
		return (*value)(nil)
	case *types.Array:
		a := make(array, t.Len())
		for i := range a {
			a[i] = zero(t.Elem())
		}
		return a
	case *types.Named, *types.Alias:
		return zero(t.Underlying())
	case *types.Interface:
		return iface{}
	case *types.Slice:
		return []value(nil)
	case *types.Struct:
		s := make(structure, t.NumFields())
		for i := range s {
			s[i] = zero(t.Field(i).Type())
		}
		return s
	case *types.Tuple:
		if t.Len() == 1 {
			return zero(t.At(0).Type())
		}
		s := make(tuple, t.Len())
		for i := range s {
			s[i] = zero(t.At(i).Type())
		}
		return s
	case *types.Chan:
		return (*native)(nil)
	case *types.Map:
		return (*mapv)(nil)
	case *types.Signature:
		return (*ssa.Function)(nil)
	case *types.TypeParam:
		panic("zero of type parameter")
	}
	panic(fmt.Sprintf("zero: unexpected type %T %v", t, t))
}

// copyVal copies aggregates (structs and arrays are values in Go).
func copyVal(v value) value {
	switch v := v.(type) {
	case structure:
		c := make(structure, len(v))
		for i, f := range v {
			c[i] = copyVal(f)
		}
		return c
	case array:
		c := make(array, len(v))
		for i, f := range v {
			c[i] = copyVal(f)
		}
		return c
	}
	return v
}

func load(addr *value) value { return copyVal(*addr) }

// ---- equality (Go ==) on concrete values; symbolic handled by caller ----

func sameType(x, y types.Type) bool {
	if x == nil || y == nil {
		return x == y
	}
	return x == y || types.Identical(x, y)
}

// ---- maps ----

func newMap() *mapv { return &mapv{m: map[value]value{}} }

func (m *mapv) get(k value) (value, bool) {
	if m == nil {
		return nil, false
	}
	v, ok := m.m[k]
	return v, ok
}

func (m *mapv) set(k, v value) {
	if _, ok := m.m[k]; !ok {
		m.keys = append(m.keys, k)
	}
	m.m[k] = v
}

func (m *mapv) del(k value) {
	if m == nil {
		return
	}
	if _, ok := m.m[k]; ok {
		delete(m.m, k)
		for i, x := range m.keys {
			if x == k {
				m.keys = append(m.keys[:i:i], m.keys[i+1:]...)
				break
			}
		}
	}
}

func (m *mapv) length() int {
	if m == nil {
		return 0
	}
	return len(m.m) + len(m.hkeys) + len(m.skeys)
}

// ---- debugging output ----

func toString(v value) string {
	var sb strings.Builder
	writeValue(&sb, v, 0)
	return sb.String()
}

func writeValue(sb *strings.Builder, v value, depth int) {
	if depth > 4 {
		sb.WriteString("…")
		return
	}
	switch v := v.(type) {
	case nil:
		sb.WriteString("<nil>")
	case bool, int64, uint64, float64:
		fmt.Fprintf(sb, "%v", v)
	case string:
		fmt.Fprintf(sb, "%q", v)
	case *symv:
		fmt.Fprintf(sb, "%v~%s", v.c, v.t)
	case *symstr:
		fmt.Fprintf(sb, "%q~sym", v.s)
	case *value:
		if v == nil {
			sb.WriteString("nil")
		} else {
			sb.WriteString("&")
			writeValue(sb, *v, depth+1)
		}
	case []value:
		sb.WriteString("[")
		for i, e := range v {
			if i > 0 {
				sb.WriteString(" ")
			}
			writeValue(sb, e, depth+1)
		}
		sb.WriteString("]")
	case array:
		writeValue(sb, []value(v), depth)
	case structure:
		sb.WriteString("{")
		for i, e := range v {
			if i > 0 {
				sb.WriteString(" ")
			}
			writeValue(sb, e, depth+1)
		}
		sb.WriteString("}")
	case tuple:
		sb.WriteString("(")
		for i, e := range v {
			if i > 0 {
				sb.WriteString(", ")
			}
			writeValue(sb, e, depth+1)
		}
		sb.WriteString(")")
	case iface:
		if v.t == nil {
			sb.WriteString("nil-iface")
		} else {
			fmt.Fprintf(sb, "%s:", v.t)
			writeValue(sb, v.v, depth+1)
		}
	case *mapv:
		if v == nil {
			sb.WriteString("nil-map")
			return
		}
		sb.WriteString("map[")
		keys := append([]value(nil), v.keys...)
		sort.SliceStable(keys, func(i, j int) bool { return fmt.Sprint(keys[i]) < fmt.Sprint(keys[j]) })
		for i, k := range keys {
			if i > 0 {
				sb.WriteString(" ")
			}
			writeValue(sb, k, depth+1)
			sb.WriteString(":")
			writeValue(sb, v.m[k], depth+1)
		}
		sb.WriteString("]")
	case *closure:
		fmt.Fprintf(sb, "closure(%s)", v.Fn)
	case *ssa.Function:
		fmt.Fprintf(sb, "func(%v)", v)
	case *ssa.Builtin:
		fmt.Fprintf(sb, "builtin(%s)", v.Name())
	default:
		fmt.Fprintf(sb, "%T", v)
	}
}
