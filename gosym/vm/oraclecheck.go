package vm

import (
	"fmt"
	"go/types"
	"sort"
	"strconv"
	"strings"

	"gosym/oracle"
	"gosym/sym"
)

// OracleDoc returns the oracle's view of the harness document of this path.
func (m *Machine) OracleDoc() *oracle.Doc {
	if d, ok := m.Scratch["oracleDoc"].(*oracle.Doc); ok {
		return d
	}
	ps := m.PS()
	atoi := func(k string) int {
		n, err := strconv.Atoi(ps.Params[k])
		if err != nil {
			abort("parameter %s missing", k)
		}
		return n
	}
	split := func(k string) []string {
		v, ok := ps.Params[k]
		if !ok {
			return nil
		}
		return strings.Split(v, ",")
	}
	d := oracle.NewDoc(m.Ctx, atoi("N"), atoi("A"), split("names"), split("pool"), split("prefixes"), split("uris"))
	if inst, ok := m.Scratch["instance"].(*Instance); ok {
		if cfg, ok := inst.Extra.(*OracleExtra); ok {
			d.NSMap = cfg.NSMap
			d.HasURI = cfg.HasURI
		}
	}
	// holes: symbolic literals named as the harness names them
	for k, spec := range ps.Params {
		if !strings.HasPrefix(k, "hole.") {
			continue
		}
		name := k[5:]
		h := &oracle.Hole{}
		if name[0] == 'h' {
			if strings.HasPrefix(spec, "int:") {
				f := strings.Split(spec, ":")
				lo, _ := strconv.Atoi(f[1])
				hi, _ := strconv.Atoi(f[2])
				h.I = m.Ctx.IntVar(name, int64(lo), int64(hi))
				h.F = m.Ctx.FpFromSBV(h.I)
				if lo == hi {
					h.I = m.Ctx.BVC(64, uint64(int64(lo)))
					h.F = m.Ctx.FPC(float64(lo))
				}
			} else if strings.HasPrefix(spec, "qc:") {
				// concrete on this path (case split by the harness)
				v, _ := strconv.Atoi(ps.Inputs[name])
				h.F = m.Ctx.FPC(float64(v) / 4)
			} else if strings.HasPrefix(spec, "q:") {
				f := strings.Split(spec, ":")
				lo, _ := strconv.Atoi(f[1])
				hi, _ := strconv.Atoi(f[2])
				h.F = m.Ctx.FpBin(sym.OFpDiv, m.Ctx.FpFromSBV(m.Ctx.IntVar(name, int64(lo), int64(hi))), m.Ctx.FPC(4))
			} else {
				h.F = m.Ctx.Var(name, sym.FP)
			}
		} else {
			ln, ok := ps.Inputs[name+"#len"]
			if !ok {
				continue // hole not materialised on this path
			}
			n, _ := strconv.Atoi(ln)
			bs := make([]byte, n)
			h.B = make([]*sym.Term, n)
			for i := 0; i < n; i++ {
				bn := fmt.Sprintf("%s#%d", name, i)
				c, _ := strconv.Atoi(ps.Inputs[bn])
				bs[i] = byte(c)
				if _, isVar := m.Ctx.Vars[bn]; isVar {
					h.B[i] = m.Ctx.Var(bn, sym.BV(8))
				}
			}
			h.S = string(bs)
		}
		d.Holes[name] = h
	}
	d.Hint = func(t *sym.Term) sym.Val { return m.evalTerm(t) }
	m.Scratch["oracleDoc"] = d
	return d
}

// OracleExtra is the payload of instances that use the reference semantics.
type OracleExtra struct {
	Exprs  map[string]oracle.Expr
	NSMap  map[string]string
	HasURI bool
}

func (m *Machine) oracleExpr(key string) oracle.Expr {
	inst, _ := m.Scratch["instance"].(*Instance)
	if inst != nil {
		if ex, ok := inst.Extra.(*OracleExtra); ok {
			if e, ok := ex.Exprs[key]; ok {
				return e
			}
		}
	}
	abort("no oracle expression %q for this instance", key)
	return nil
}

func (m *Machine) evalTerm(t *sym.Term) sym.Val {
	memo, _ := m.Scratch["evalMemo"].(map[int]sym.Val)
	if memo == nil {
		memo = map[int]sym.Val{}
		m.Scratch["evalMemo"] = memo
	}
	return sym.Eval(t, m.Model, memo)
}

func (m *Machine) evalTermBool(t *sym.Term) bool {
	if t.IsConst() {
		return t.IsTrue()
	}
	return sym.Eval(t, m.Model, map[int]sym.Val{}).B()
}

func (m *Machine) oracleEval(e oracle.Expr, node int) (v oracle.Val) {
	defer func() {
		if r := recover(); r != nil {
			if u, ok := r.(oracle.Unsupported); ok {
				abort("oracle: %s", u.Msg)
			}
			panic(r)
		}
	}()
	return m.OracleDoc().Eval(e, oracle.Ctx{Node: node})
}

func (m *Machine) addObligation(label string, t *sym.Term, info string) {
	m.addObligationFB(label, t, info, nil)
}

// addObligationFB: build is re-run without hints when the lemmas cannot be proved.
func (m *Machine) addObligationFB(label string, t *sym.Term, info string, build func() *sym.Term) {
	var lemmas []*sym.Term
	if d, ok := m.Scratch["oracleDoc"].(*oracle.Doc); ok {
		if !d.OutsideClaim.IsFalse() {
			t = m.Ctx.Or(d.OutsideClaim, t)
			d.OutsideClaim = m.Ctx.F
		}
		lemmas = d.Lemmas
		d.Lemmas = nil
	}
	ob := Obligation{Label: label, PCLen: len(m.PC), Info: info, Lemmas: lemmas}
	if build != nil && len(lemmas) > 0 {
		ob.Fallback = func() *sym.Term {
			d := m.Scratch["oracleDoc"].(*oracle.Doc)
			hint := d.Hint
			d.Hint = nil
			defer func() { d.Hint = hint; d.Lemmas = nil }()
			t := build()
			if !d.OutsideClaim.IsFalse() {
				t = m.Ctx.Or(d.OutsideClaim, t)
				d.OutsideClaim = m.Ctx.F
			}
			return t
		}
	}
	if t.IsConst() {
		ob.Conc = t.IsTrue()
	} else {
		ob.T = t
		ob.Conc = m.evalTerm(t).B()
	}
	ps := m.PS()
	ps.Obligations = append(ps.Obligations, ob)
}

func refString(d *oracle.Doc, idx []int) string {
	parts := make([]string, len(idx))
	for i, k := range idx {
		n := d.Nodes[k]
		if n.A >= 0 {
			parts[i] = fmt.Sprintf("%d@%d", n.S, n.A)
		} else {
			parts[i] = strconv.Itoa(n.S)
		}
	}
	return "{" + strings.Join(parts, ",") + "}"
}

func registerOracle(m *Machine) {
	e := m.ext
	// vCheckNodeSet(key string, cur, attr int, got []int)
	// obligation: the set of got equals the reference node-set of expression key.
	e[hpkg+"vCheckNodeSet"] = func(m *Machine, fr *frame, a []value) value {
		key := concStr(a[0])
		cur := int(asInt(m.concretize(a[1])))
		attr := int(asInt(m.concretize(a[2])))
		d := m.OracleDoc()
		node, ok := indexNode(d, cur, attr)
		if !ok {
			abort("context node outside the universe")
		}
		in := map[int]bool{}
		bogus := false
		for _, g := range a[3].([]value) {
			r := int(asInt(m.concretize(g)))
			k, ok := indexNode(d, r/16, r%16-1)
			if !ok {
				bogus = true
				continue
			}
			in[k] = true
		}
		var expect, gotIdx []int
		build := func() *sym.Term {
			v := m.oracleEval(m.oracleExpr(key), node)
			if v.K != oracle.KNodeSet {
				abort("oracle: expression %s is not a node-set", key)
			}
			var conj []*sym.Term
			expect, gotIdx = nil, nil
			for i, t := range v.NS {
				if in[i] {
					conj = append(conj, t)
					gotIdx = append(gotIdx, i)
				} else {
					conj = append(conj, m.Ctx.Not(t))
				}
				if m.evalTerm(t).B() {
					expect = append(expect, i)
				}
			}
			if bogus {
				return m.Ctx.F
			}
			return m.Ctx.And(conj...)
		}
		t := build()
		sort.Ints(gotIdx)
		if len(expect) > 0 {
			m.PS().Flags["nontrivial"] = true
		}
		m.addObligationFB(key+":set", t, fmt.Sprintf("got %s reference(model) %s", refString(d, gotIdx), refString(d, expect)), build)
		return nil
	}
}

// scalar obligations ------------------------------------------------------

func (m *Machine) checkCtx(a []value) (string, int) {
	key := concStr(a[0])
	cur := int(asInt(m.concretize(a[1])))
	attr := int(asInt(m.concretize(a[2])))
	node, ok := indexNode(m.OracleDoc(), cur, attr)
	if !ok {
		abort("context node outside the universe")
	}
	return key, node
}

func registerOracleScalars(m *Machine) {
	e := m.ext
	e[hpkg+"vCheckBool"] = func(m *Machine, fr *frame, a []value) value {
		key, node := m.checkCtx(a)
		d := m.OracleDoc()
		got := m.termOf(a[3], types.Typ[types.Bool])
		var ref *sym.Term
		build := func() *sym.Term {
			v := m.oracleEval(m.oracleExpr(key), node)
			if v.K != oracle.KBool {
				abort("oracle: expression %s is not boolean-valued", key)
			}
			ref = d.Boolean(v)
			return m.Ctx.Eq(got, ref)
		}
		t := build()
		m.addObligationFB(key+":bool", t, fmt.Sprintf("got %v reference(model) %v", conc(a[3]), m.evalTerm(ref).B()), build)
		return nil
	}
	e[hpkg+"vCheckNum"] = func(m *Machine, fr *frame, a []value) value {
		key, node := m.checkCtx(a)
		got := m.termOf(a[3], types.Typ[types.Float64])
		var ref *sym.Term
		build := func() *sym.Term {
			v := m.oracleEval(m.oracleExpr(key), node)
			if v.K != oracle.KNum {
				abort("oracle: expression %s is not number-valued", key)
			}
			ref = v.F
			// the same IEEE-754 double: SMT '=' on FP (all NaNs equal, +0 != -0)
			return m.Ctx.Eq(got, v.F)
		}
		t := build()
		m.addObligationFB(key+":number", t, fmt.Sprintf("got %v reference(model) %v", conc(a[3]), m.evalTerm(ref).F()), build)
		return nil
	}
	e[hpkg+"vCheckStr"] = func(m *Machine, fr *frame, a []value) value {
		key, node := m.checkCtx(a)
		d := m.OracleDoc()
		gs, gb := strBytes(a[3])
		gotCase := oracle.StrCase{Cond: m.Ctx.T, S: gs, B: gb}
		refStr := "?"
		build := func() *sym.Term {
			v := m.oracleEval(m.oracleExpr(key), node)
			if v.K != oracle.KStr {
				abort("oracle: expression %s is not string-valued", key)
			}
			var disj []*sym.Term
			for _, sc := range v.S {
				disj = append(disj, m.Ctx.And(sc.Cond, d.CaseEq(sc, gotCase)))
				if m.evalTerm(sc.Cond).B() {
					refStr = d.CaseConcrete(sc, func(t *sym.Term) byte { return byte(m.evalTerm(t).U) })
				}
			}
			return m.Ctx.Or(disj...)
		}
		t := build()
		m.addObligationFB(key+":string", t, fmt.Sprintf("got %q reference(model) %q", gs, refStr), build)
		return nil
	}
}

func indexNode(d *oracle.Doc, cur, attr int) (int, bool) {
	if cur < 0 || cur >= d.N || attr < -1 || attr >= d.A || (cur == 0 && attr >= 0) {
		return 0, false
	}
	return d.Index(oracle.Node{S: cur, A: attr}), true
}
