package vm

import (
	"fmt"
	"sort"
	"strconv"
	"strings"

	"gosym/oracle"
	"gosym/sym"
)

// OracleDoc returns the oracle's view of the harness document of this path.
func (m *Machine) OracleDoc() *oracle.Doc {
	if d, ok := m.Scratch["oracleDoc"].(*oracle.Doc); ok {
		return d
	}
	ps := m.PS()
	atoi := func(k string) int {
		n, err := strconv.Atoi(ps.Params[k])
		if err != nil {
			abort("parameter %s missing", k)
		}
		return n
	}
	split := func(k string) []string {
		v, ok := ps.Params[k]
		if !ok {
			return nil
		}
		return strings.Split(v, ",")
	}
	d := oracle.NewDoc(m.Ctx, atoi("N"), atoi("A"), split("names"), split("pool"), split("prefixes"), split("uris"))
	if inst, ok := m.Scratch["instance"].(*Instance); ok {
		if cfg, ok := inst.Extra.(*OracleExtra); ok {
			d.NSMap = cfg.NSMap
			d.HasURI = cfg.HasURI
		}
	}
	m.Scratch["oracleDoc"] = d
	return d
}

// OracleExtra is the payload of instances that use the reference semantics.
type OracleExtra struct {
	Exprs  map[string]oracle.Expr
	NSMap  map[string]string
	HasURI bool
}

func (m *Machine) oracleExpr(key string) oracle.Expr {
	inst, _ := m.Scratch["instance"].(*Instance)
	if inst != nil {
		if ex, ok := inst.Extra.(*OracleExtra); ok {
			if e, ok := ex.Exprs[key]; ok {
				return e
			}
		}
	}
	abort("no oracle expression %q for this instance", key)
	return nil
}

func (m *Machine) evalTerm(t *sym.Term) sym.Val {
	memo, _ := m.Scratch["evalMemo"].(map[int]sym.Val)
	if memo == nil {
		memo = map[int]sym.Val{}
		m.Scratch["evalMemo"] = memo
	}
	return sym.Eval(t, m.Model, memo)
}

func (m *Machine) oracleEval(e oracle.Expr, node int) (v oracle.Val) {
	defer func() {
		if r := recover(); r != nil {
			if u, ok := r.(oracle.Unsupported); ok {
				abort("oracle: %s", u.Msg)
			}
			panic(r)
		}
	}()
	return m.OracleDoc().Eval(e, oracle.Ctx{Node: node})
}

func (m *Machine) addObligation(label string, t *sym.Term, info string) {
	ob := Obligation{Label: label, PCLen: len(m.PC), Info: info}
	if t.IsConst() {
		ob.Conc = t.IsTrue()
	} else {
		ob.T = t
		ob.Conc = m.evalTerm(t).B()
	}
	ps := m.PS()
	ps.Obligations = append(ps.Obligations, ob)
}

func refString(d *oracle.Doc, idx []int) string {
	parts := make([]string, len(idx))
	for i, k := range idx {
		n := d.Nodes[k]
		if n.A >= 0 {
			parts[i] = fmt.Sprintf("%d@%d", n.S, n.A)
		} else {
			parts[i] = strconv.Itoa(n.S)
		}
	}
	return "{" + strings.Join(parts, ",") + "}"
}

func registerOracle(m *Machine) {
	e := m.ext
	// vCheckNodeSet(key string, cur, attr int, got []int)
	// obligation: the set of got equals the reference node-set of expression key.
	e[hpkg+"vCheckNodeSet"] = func(m *Machine, fr *frame, a []value) value {
		key := concStr(a[0])
		cur := int(asInt(m.concretize(a[1])))
		attr := int(asInt(m.concretize(a[2])))
		d := m.OracleDoc()
		node, ok := indexNode(d, cur, attr)
		if !ok {
			abort("context node outside the universe")
		}
		v := m.oracleEval(m.oracleExpr(key), node)
		if v.K != oracle.KNodeSet {
			abort("oracle: expression %s is not a node-set", key)
		}
		in := map[int]bool{}
		bogus := false
		for _, g := range a[3].([]value) {
			r := int(asInt(m.concretize(g)))
			k, ok := indexNode(d, r/16, r%16-1)
			if !ok {
				bogus = true
				continue
			}
			in[k] = true
		}
		var conj []*sym.Term
		var expect, gotIdx []int
		for i, t := range v.NS {
			if in[i] {
				conj = append(conj, t)
				gotIdx = append(gotIdx, i)
			} else {
				conj = append(conj, m.Ctx.Not(t))
			}
			if m.evalTerm(t).B() {
				expect = append(expect, i)
			}
		}
		sort.Ints(gotIdx)
		t := m.Ctx.And(conj...)
		if bogus {
			t = m.Ctx.F
		}
		if len(expect) > 0 {
			m.PS().Flags["nontrivial"] = true
		}
		m.addObligation(key+":set", t, fmt.Sprintf("got %s reference(model) %s", refString(d, gotIdx), refString(d, expect)))
		return nil
	}
}

func indexNode(d *oracle.Doc, cur, attr int) (int, bool) {
	if cur < 0 || cur >= d.N || attr < -1 || attr >= d.A || (cur == 0 && attr >= 0) {
		return 0, false
	}
	return d.Index(oracle.Node{S: cur, A: attr}), true
}
