package vm

import (
	"fmt"
	"go/token"
	"go/types"
	"math"
	"reflect"
	"regexp"
	"strconv"
	"strings"
	"unicode"
	"unicode/utf8"

	"golang.org/x/tools/go/ssa"

	"gosym/sym"
)

func registerExternals(m *Machine) {
	e := m.ext
	// ---- math ----
	e["math.NaN"] = func(m *Machine, fr *frame, a []value) value { return math.NaN() }
	e["math.Inf"] = func(m *Machine, fr *frame, a []value) value { return math.Inf(int(asInt(m.concretize(a[0])))) }
	e["math.IsNaN"] = func(m *Machine, fr *frame, a []value) value {
		if s, ok := a[0].(*symv); ok {
			f := s.c.(float64)
			return mkSym(f != f, m.Ctx.FpIsNaN(s.t))
		}
		f := a[0].(float64)
		return f != f
	}
	e["math.IsInf"] = func(m *Machine, fr *frame, a []value) value {
		sign := int(asInt(m.concretize(a[1])))
		if s, ok := a[0].(*symv); ok {
			f := s.c.(float64)
			c := m.Ctx
			t := c.FpIsInf(s.t)
			if sign > 0 {
				t = c.And(t, c.FpCmp(sym.OFpLt, c.FPC(0), s.t))
			} else if sign < 0 {
				t = c.And(t, c.FpCmp(sym.OFpLt, s.t, c.FPC(0)))
			}
			return mkSym(math.IsInf(f, sign), t)
		}
		return math.IsInf(a[0].(float64), sign)
	}
	round := func(mode int) extFn {
		return func(m *Machine, fr *frame, a []value) value {
			if s, ok := a[0].(*symv); ok {
				return mkSym(sym.RoundMode(s.c.(float64), mode), m.Ctx.FpRound(s.t, mode))
			}
			return sym.RoundMode(a[0].(float64), mode)
		}
	}
	e["math.Floor"] = round(sym.RTN)
	e["math.Ceil"] = round(sym.RTP)
	e["math.Round"] = round(sym.RNA)
	e["math.Trunc"] = round(sym.RTZ)
	e["math.RoundToEven"] = round(sym.RNE)
	e["math.Abs"] = func(m *Machine, fr *frame, a []value) value {
		if s, ok := a[0].(*symv); ok {
			return mkSym(math.Abs(s.c.(float64)), m.Ctx.FpAbs(s.t))
		}
		return math.Abs(a[0].(float64))
	}
	// math.Mod: exact on concrete operands and on integer-valued operands below
	// 2^53 with a non-zero divisor (the truncating integer remainder); otherwise
	// the result is an unconstrained value of the environment (havoc).
	e["math.Mod"] = func(m *Machine, fr *frame, a []value) value {
		if !isSym(a[0]) && !isSym(a[1]) {
			return math.Mod(a[0].(float64), a[1].(float64))
		}
		c := m.Ctx
		x, y := m.termOf(a[0], types.Typ[types.Float64]), m.termOf(a[1], types.Typ[types.Float64])
		lim := c.FPC(9007199254740992.0)
		isInt := func(t *sym.Term) *sym.Term {
			return c.And(c.FpCmp(sym.OFpEq, c.FpRound(t, sym.RTZ), t), c.FpCmp(sym.OFpLt, c.FpAbs(t), lim))
		}
		dom := c.And(isInt(x), isInt(y), c.Not(c.FpCmp(sym.OFpEq, y, c.FPC(0))))
		exact := c.FpFromSBV(c.BvBin(sym.OBvSRem, c.FpToSBV(x), c.FpToSBV(y)))
		// sign of a zero result follows the dividend
		exact = c.Ite(c.And(c.FpCmp(sym.OFpEq, exact, c.FPC(0)), c.FpCmp(sym.OFpLt, x, c.FPC(0))), c.FPC(math.Copysign(0, -1)), exact)
		cx, cy := conc(a[0]).(float64), conc(a[1]).(float64)
		native := math.Mod(cx, cy)
		inDom := cx == math.Trunc(cx) && cy == math.Trunc(cy) && math.Abs(cx) < 9007199254740992.0 && math.Abs(cy) < 9007199254740992.0 && cy != 0
		h := m.havocFloat("math.Mod", native)
		if inDom {
			return mkSym(native, c.Ite(dom, exact, h.t))
		}
		m.Stubs["havoc:math.Mod"]++
		return mkSym(h.c, c.Ite(dom, exact, h.t))
	}
	e["math.Float64bits"] = func(m *Machine, fr *frame, a []value) value {
		return math.Float64bits(m.concretize(a[0]).(float64))
	}
	e["math.Float64frombits"] = func(m *Machine, fr *frame, a []value) value {
		return math.Float64frombits(bitsOf(m.concretize(a[0])))
	}

	// ---- strconv ----
	e["strconv.Itoa"] = func(m *Machine, fr *frame, a []value) value {
		return strconv.Itoa(int(asInt(m.concretize(a[0]))))
	}
	e["strconv.FormatInt"] = func(m *Machine, fr *frame, a []value) value {
		return strconv.FormatInt(asInt(m.concretize(a[0])), int(asInt(m.concretize(a[1]))))
	}
	e["strconv.FormatUint"] = func(m *Machine, fr *frame, a []value) value {
		return strconv.FormatUint(bitsOf(m.concretize(a[0])), int(asInt(m.concretize(a[1]))))
	}
	e["strconv.FormatBool"] = func(m *Machine, fr *frame, a []value) value {
		return strconv.FormatBool(m.concretize(a[0]).(bool))
	}
	e["strconv.Quote"] = func(m *Machine, fr *frame, a []value) value {
		return strconv.Quote(m.concretizeStr(a[0]))
	}
	e["strconv.FormatFloat"] = func(m *Machine, fr *frame, a []value) value {
		fmtc, prec, bits := byte(bitsOf(m.concretize(a[1]))), int(asInt(m.concretize(a[2]))), int(asInt(m.concretize(a[3])))
		sv, isS := a[0].(*symv)
		if !isS {
			return strconv.FormatFloat(a[0].(float64), fmtc, prec, bits)
		}
		// integer-valued doubles below 10^6 in magnitude (and NaN) are rendered exactly:
		// 'g'/'f' with shortest precision print the decimal integer
		if (fmtc == 'g' || fmtc == 'f') && prec == -1 && bits == 64 {
			c := m.Ctx
			f := sv.c.(float64)
			if m.truth(mkSym(f != f, c.FpIsNaN(sv.t)), "format-nan") {
				return "NaN"
			}
			isInt := c.And(c.FpCmp(sym.OFpEq, c.FpRound(sv.t, sym.RTZ), sv.t), c.FpCmp(sym.OFpLt, c.FpAbs(sv.t), c.FPC(1e6)))
			if m.truth(mkSym(f == math.Trunc(f) && math.Abs(f) < 1e6, isInt), "format-small-int") {
				m.Stubs["model:strconv.FormatFloat(integer)"]++
				neg := m.truth(mkSym(math.Signbit(f), c.Or(c.FpCmp(sym.OFpLt, sv.t, c.FPC(0)), c.Eq(sv.t, c.FPC(math.Copysign(0, -1))))), "format-sign")
				mag := c.FpToSBV(c.FpAbs(sv.t))
				guards, bytes := c.DecimalCases(mag, 6)
				am := uint64(math.Abs(f))
				txt := strconv.FormatUint(am, 10)
				k := len(txt)
				for j := 0; j < len(guards); j++ {
					// decide the digit count in canonical order
					if m.truth(mkSym(j+1 == k, guards[j]), "format-digits") {
						break
					}
				}
				bs := append([]*sym.Term{}, bytes[k-1]...)
				if neg {
					txt = "-" + txt
					bs = append([]*sym.Term{nil}, bs...)
				}
				return mkStr(txt, bs)
			}
		}
		// shortest-digit generation is not encoded: the text of any other symbolic double
		// is an arbitrary short string over the number alphabet (same double, same text)
		m.Stubs["havoc:strconv.FormatFloat"]++
		key := fmt.Sprintf("ff:%d", sv.t.ID)
		memo, _ := m.Scratch["ffMemo"].(map[string]value)
		if memo == nil {
			memo = map[string]value{}
			m.Scratch["ffMemo"] = memo
		}
		if r, ok := memo[key]; ok {
			return r
		}
		n, _ := m.Scratch["havocN"].(int)
		m.Scratch["havocN"] = n + 1
		r := m.inputStr(fmt.Sprintf("havoc#FormatFloat#%d", n), 2, "set:0123456789.-+eNaIf")
		memo[key] = r
		return r
	}
	e["strconv.ParseFloat"] = func(m *Machine, fr *frame, a []value) value {
		ss, isS := a[0].(*symstr)
		if !isS {
			f, err := strconv.ParseFloat(a[0].(string), int(asInt(m.concretize(a[1]))))
			if err != nil {
				return tuple{f, m.hostError(fr, "strconv", "*strconv.NumError", err.Error())}
			}
			return tuple{f, iface{}}
		}
		// symbolic bytes: the digit algorithms are not encoded. The result is an
		// unconstrained (value, ok) pair of the environment, the same for the same bytes.
		m.Stubs["havoc:strconv.ParseFloat"]++
		key := fmt.Sprintf("pf:%d", len(ss.s))
		for i, t := range ss.b {
			if t != nil {
				key += fmt.Sprintf(":t%d", t.ID)
			} else {
				key += fmt.Sprintf(":c%d", ss.s[i])
			}
		}
		memo, _ := m.Scratch["pfMemo"].(map[string]tuple)
		if memo == nil {
			memo = map[string]tuple{}
			m.Scratch["pfMemo"] = memo
		}
		if r, ok := memo[key]; ok {
			return r
		}
		nf, nerr := strconv.ParseFloat(ss.s, 64)
		n, _ := m.Scratch["havocN"].(int)
		m.Scratch["havocN"] = n + 1
		okName := fmt.Sprintf("havoc#ParseFloat.ok#%d", n)
		okv := m.Ctx.Var(okName, sym.Bool)
		okc := nerr == nil
		if mv, have := m.Model[okName]; have {
			okc = mv.B()
		} else {
			m.Model[okName] = sym.BoolVal(okc)
		}
		fv := m.havocFloat("ParseFloat", nf)
		// the only strings ParseFloat turns into NaN spell "nan" (any case, optional sign)
		{
			c := m.Ctx
			spellsNaN := c.F
			for _, off := range []int{0, 1} {
				if len(ss.s) != 3+off {
					continue
				}
				is := func(i int, lo, up byte) *sym.Term {
					bt := m.byteTerm(ss, i)
					return c.Or(c.Eq(bt, c.BVC(8, uint64(lo))), c.Eq(bt, c.BVC(8, uint64(up))))
				}
				conj := []*sym.Term{is(off, 'n', 'N'), is(off+1, 'a', 'A'), is(off+2, 'n', 'N')}
				if off == 1 {
					conj = append(conj, is(0, '+', '-'))
				}
				spellsNaN = c.Or(spellsNaN, c.And(conj...))
			}
			m.AssumeFixed(c.Or(c.Not(c.FpIsNaN(fv.t)), spellsNaN), "ParseFloat-nan-only-for-nan")
			if fv.c.(float64) != fv.c.(float64) && !m.evalTermBool(spellsNaN) {
				fv = &symv{c: float64(0), t: fv.t}
				m.Model[fv.t.Name] = sym.FPVal(0)
			}
		}
		if !m.truth(&symv{c: okc, t: okv}, "ParseFloat-ok") {
			errv := m.hostError(fr, "strconv", "*strconv.NumError", "strconv.ParseFloat: parsing "+strconv.Quote(ss.s)+": invalid syntax")
			r := tuple{float64(0), errv}
			memo[key] = r
			return r
		}
		r := tuple{value(fv), value(iface{})}
		memo[key] = r
		return r
	}
	e["strconv.Atoi"] = func(m *Machine, fr *frame, a []value) value {
		s := m.concretizeStr(a[0])
		n, err := strconv.Atoi(s)
		if err != nil {
			return tuple{int64(n), m.hostError(fr, "strconv", "*strconv.NumError", err.Error())}
		}
		return tuple{int64(n), iface{}}
	}

	// ---- unicode ----
	asciiPred := func(name string, pred func(rune) bool) extFn {
		return func(m *Machine, fr *frame, a []value) value {
			if s, ok := a[0].(*symv); ok {
				return m.asciiTable(s, pred)
			}
			return pred(rune(asInt(a[0])))
		}
	}
	e["unicode.IsSpace"] = asciiPred("IsSpace", unicode.IsSpace)
	e["unicode.IsDigit"] = asciiPred("IsDigit", unicode.IsDigit)
	e["unicode.IsLetter"] = asciiPred("IsLetter", unicode.IsLetter)
	e["unicode.IsUpper"] = asciiPred("IsUpper", unicode.IsUpper)
	e["unicode.IsLower"] = asciiPred("IsLower", unicode.IsLower)
	e["unicode.Is"] = func(m *Machine, fr *frame, a []value) value {
		tab := m.hostRangeTable(a[0].(*value))
		pred := func(r rune) bool { return unicode.Is(tab, r) }
		if s, ok := a[1].(*symv); ok {
			return m.asciiTable(s, pred)
		}
		return pred(rune(asInt(a[1])))
	}
	e["unicode.ToLower"] = func(m *Machine, fr *frame, a []value) value {
		return int64(unicode.ToLower(rune(asInt(m.concretize(a[0])))))
	}
	e["unicode/utf8.DecodeRuneInString"] = func(m *Machine, fr *frame, a []value) value {
		s := m.concretizeStr(a[0])
		r, n := utf8.DecodeRuneInString(s)
		return tuple{int64(r), int64(n)}
	}
	e["unicode/utf8.RuneLen"] = func(m *Machine, fr *frame, a []value) value {
		return int64(utf8.RuneLen(rune(asInt(m.concretize(a[0])))))
	}
	e["unicode/utf8.RuneCountInString"] = func(m *Machine, fr *frame, a []value) value {
		return int64(utf8.RuneCountInString(m.concretizeStr(a[0])))
	}

	// ---- errors / fmt ----
	e["errors.New"] = func(m *Machine, fr *frame, a []value) value {
		return m.newError(fr, a[0])
	}
	e["fmt.Sprintf"] = func(m *Machine, fr *frame, a []value) value {
		return m.sprintf(fr, m.concretizeStr(a[0]), a[1].([]value))
	}
	e["fmt.Sprint"] = func(m *Machine, fr *frame, a []value) value {
		return fmt.Sprint(m.hostArgs(fr, a[0].([]value))...)
	}
	e["fmt.Errorf"] = func(m *Machine, fr *frame, a []value) value {
		// message text is observed by no property: non-string arguments are pinned, not enumerated
		args := a[1].([]value)
		pinned := make([]value, len(args))
		for i := range args {
			if iv, ok := args[i].(iface); ok {
				if _, isS := iv.v.(*symstr); isS {
					pinned[i] = args[i]
					continue
				}
			}
			pinned[i] = m.pinDeep(args[i])
		}
		msg := m.sprintf(fr, strings.ReplaceAll(m.concretizeStr(a[0]), "%w", "%v"), pinned)
		return m.newError(fr, msg)
	}
	e["fmt.Println"] = func(m *Machine, fr *frame, a []value) value { return tuple{int64(0), iface{}} }
	e["fmt.Printf"] = func(m *Machine, fr *frame, a []value) value { return tuple{int64(0), iface{}} }

	// ---- strings ----
	strFn := func(name string, model string, native func(a []value) value) extFn {
		return func(m *Machine, fr *frame, a []value) value {
			anySym := false
			for _, x := range a {
				if isSym(x) {
					anySym = true
				}
				if sl, ok := x.([]value); ok {
					for _, y := range sl {
						if isSym(y) {
							anySym = true
						}
					}
				}
			}
			if !anySym {
				return native(a)
			}
			if model != "" {
				if f := m.MainPkg.Func(model); f != nil {
					m.Stubs["model:"+name]++
					return m.call(fr, token.NoPos, f, a)
				}
			}
			m.Stubs["concretized:"+name]++
			for i := range a {
				if sl, ok := a[i].([]value); ok {
					c := make([]value, len(sl))
					for j := range sl {
						c[j] = m.concretizeDeep(sl[j])
					}
					a[i] = c
				} else {
					a[i] = m.concretizeDeep(a[i])
				}
			}
			return native(a)
		}
	}
	e["strings.HasPrefix"] = strFn("strings.HasPrefix", "vmHasPrefix", func(a []value) value { return strings.HasPrefix(a[0].(string), a[1].(string)) })
	e["strings.HasSuffix"] = strFn("strings.HasSuffix", "vmHasSuffix", func(a []value) value { return strings.HasSuffix(a[0].(string), a[1].(string)) })
	e["strings.Contains"] = strFn("strings.Contains", "vmContains", func(a []value) value { return strings.Contains(a[0].(string), a[1].(string)) })
	e["strings.Index"] = strFn("strings.Index", "vmIndex", func(a []value) value { return int64(strings.Index(a[0].(string), a[1].(string))) })
	e["strings.TrimSpace"] = strFn("strings.TrimSpace", "vmTrimSpace", func(a []value) value { return strings.TrimSpace(a[0].(string)) })
	e["strings.ToLower"] = strFn("strings.ToLower", "vmToLower", func(a []value) value { return strings.ToLower(a[0].(string)) })
	e["strings.ToUpper"] = strFn("strings.ToUpper", "", func(a []value) value { return strings.ToUpper(a[0].(string)) })
	e["strings.ReplaceAll"] = strFn("strings.ReplaceAll", "vmReplaceAll", func(a []value) value {
		return strings.ReplaceAll(a[0].(string), a[1].(string), a[2].(string))
	})
	e["strings.Join"] = strFn("strings.Join", "vmJoin", func(a []value) value {
		sl := a[0].([]value)
		ss := make([]string, len(sl))
		for i := range sl {
			ss[i] = sl[i].(string)
		}
		return strings.Join(ss, a[1].(string))
	})
	e["strings.Repeat"] = strFn("strings.Repeat", "", func(a []value) value { return strings.Repeat(a[0].(string), int(asInt(a[1]))) })
	e["strings.Split"] = strFn("strings.Split", "", func(a []value) value {
		parts := strings.Split(a[0].(string), a[1].(string))
		out := make([]value, len(parts))
		for i := range parts {
			out[i] = parts[i]
		}
		return out
	})
	e["strings.IndexByte"] = strFn("strings.IndexByte", "", func(a []value) value { return int64(strings.IndexByte(a[0].(string), byte(bitsOf(a[1])))) })
	e["strings.LastIndex"] = strFn("strings.LastIndex", "", func(a []value) value { return int64(strings.LastIndex(a[0].(string), a[1].(string))) })
	e["strings.TrimLeft"] = strFn("strings.TrimLeft", "", func(a []value) value { return strings.TrimLeft(a[0].(string), a[1].(string)) })
	e["strings.TrimRight"] = strFn("strings.TrimRight", "", func(a []value) value { return strings.TrimRight(a[0].(string), a[1].(string)) })
	e["strings.Trim"] = strFn("strings.Trim", "vmTrim", func(a []value) value { return strings.Trim(a[0].(string), a[1].(string)) })
	e["strings.TrimPrefix"] = strFn("strings.TrimPrefix", "", func(a []value) value { return strings.TrimPrefix(a[0].(string), a[1].(string)) })
	e["strings.TrimSuffix"] = strFn("strings.TrimSuffix", "", func(a []value) value { return strings.TrimSuffix(a[0].(string), a[1].(string)) })
	e["strings.Count"] = strFn("strings.Count", "", func(a []value) value { return int64(strings.Count(a[0].(string), a[1].(string))) })
	e["strings.EqualFold"] = strFn("strings.EqualFold", "", func(a []value) value { return strings.EqualFold(a[0].(string), a[1].(string)) })
	// strings.NewReplacer(oldnew...).Replace(s): kept as an opaque pair list
	e["strings.NewReplacer"] = func(m *Machine, fr *frame, a []value) value {
		var cell value = &native{v: append([]value(nil), a[0].([]value)...)}
		return &cell
	}
	e["(*strings.Replacer).Replace"] = func(m *Machine, fr *frame, a []value) value {
		pairs := (*a[0].(*value)).(*native).v.([]value)
		anySym := isSym(a[1])
		for _, p := range pairs {
			if isSym(p) {
				anySym = true
			}
		}
		if !anySym {
			ss := make([]string, len(pairs))
			for i := range pairs {
				ss[i] = pairs[i].(string)
			}
			return strings.NewReplacer(ss...).Replace(a[1].(string))
		}
		if f := m.MainPkg.Func("vmReplacerReplace"); f != nil {
			m.Stubs["model:strings.Replacer.Replace"]++
			return m.call(fr, token.NoPos, f, []value{pairs, a[1]})
		}
		abort("symbolic strings.Replacer.Replace without model")
		return nil
	}

	// ---- strings.Builder (struct{addr *Builder; buf []byte}) ----
	sbBuf := func(m *Machine, p value) *value {
		pp := p.(*value)
		if pp == nil {
			m.fault("nil pointer dereference (strings.Builder)")
		}
		return &(*pp).(structure)[1]
	}
	e["(*strings.Builder).WriteString"] = func(m *Machine, fr *frame, a []value) value {
		b := sbBuf(m, a[0])
		bs := m.conv(types.NewSlice(types.Typ[types.Byte]), types.Typ[types.String], a[1]).([]value)
		*b = append((*b).([]value), bs...)
		s, _ := strBytes(a[1])
		return tuple{int64(len(s)), iface{}}
	}
	e["(*strings.Builder).WriteByte"] = func(m *Machine, fr *frame, a []value) value {
		b := sbBuf(m, a[0])
		*b = append((*b).([]value), a[1])
		return iface{}
	}
	e["(*strings.Builder).WriteRune"] = func(m *Machine, fr *frame, a []value) value {
		b := sbBuf(m, a[0])
		s := m.conv(types.Typ[types.String], types.Typ[types.Rune], a[1])
		bs := m.conv(types.NewSlice(types.Typ[types.Byte]), types.Typ[types.String], s).([]value)
		*b = append((*b).([]value), bs...)
		return tuple{int64(len(bs)), iface{}}
	}
	e["(*strings.Builder).String"] = func(m *Machine, fr *frame, a []value) value {
		b := sbBuf(m, a[0])
		return m.conv(types.Typ[types.String], types.NewSlice(types.Typ[types.Byte]), (*b).([]value))
	}
	e["(*strings.Builder).Len"] = func(m *Machine, fr *frame, a []value) value {
		return int64(len((*sbBuf(m, a[0])).([]value)))
	}
	e["(*strings.Builder).Reset"] = func(m *Machine, fr *frame, a []value) value {
		b := sbBuf(m, a[0])
		*b = []value(nil)
		return nil
	}
	e["(*strings.Builder).Grow"] = func(m *Machine, fr *frame, a []value) value {
		if asInt(m.concretize(a[1])) < 0 {
			panic(&targetPanic{v: iface{t: types.Typ[types.String], v: "strings.Builder.Grow: negative count"}, site: m.where(), origin: "strings"})
		}
		return nil
	}

	// ---- bytes.Buffer (struct{buf []byte; off int; lastRead readOp}) ----
	bbBuf := func(m *Machine, p value) *value {
		pp := p.(*value)
		if pp == nil {
			m.fault("nil pointer dereference (bytes.Buffer)")
		}
		return &(*pp).(structure)[0]
	}
	e["(*bytes.Buffer).WriteString"] = func(m *Machine, fr *frame, a []value) value {
		b := bbBuf(m, a[0])
		bs := m.conv(types.NewSlice(types.Typ[types.Byte]), types.Typ[types.String], a[1]).([]value)
		*b = append((*b).([]value), bs...)
		return tuple{int64(len(bs)), iface{}}
	}
	e["(*bytes.Buffer).Write"] = func(m *Machine, fr *frame, a []value) value {
		b := bbBuf(m, a[0])
		bs := a[1].([]value)
		*b = append((*b).([]value), bs...)
		return tuple{int64(len(bs)), iface{}}
	}
	e["(*bytes.Buffer).WriteByte"] = func(m *Machine, fr *frame, a []value) value {
		b := bbBuf(m, a[0])
		*b = append((*b).([]value), a[1])
		return iface{}
	}
	e["(*bytes.Buffer).WriteRune"] = func(m *Machine, fr *frame, a []value) value {
		b := bbBuf(m, a[0])
		s := m.conv(types.Typ[types.String], types.Typ[types.Rune], a[1])
		bs := m.conv(types.NewSlice(types.Typ[types.Byte]), types.Typ[types.String], s).([]value)
		*b = append((*b).([]value), bs...)
		return tuple{int64(len(bs)), iface{}}
	}
	e["(*bytes.Buffer).Bytes"] = func(m *Machine, fr *frame, a []value) value {
		b := (*bbBuf(m, a[0])).([]value)
		if b == nil {
			return []value{}
		}
		return b
	}
	e["(*bytes.Buffer).String"] = func(m *Machine, fr *frame, a []value) value {
		if a[0].(*value) == nil {
			return "<nil>"
		}
		return m.conv(types.Typ[types.String], types.NewSlice(types.Typ[types.Byte]), (*bbBuf(m, a[0])).([]value))
	}
	e["(*bytes.Buffer).Len"] = func(m *Machine, fr *frame, a []value) value {
		return int64(len((*bbBuf(m, a[0])).([]value)))
	}
	e["(*bytes.Buffer).Reset"] = func(m *Machine, fr *frame, a []value) value {
		*bbBuf(m, a[0]) = []value(nil)
		return nil
	}

	// ---- reflect ----
	e["reflect.ValueOf"] = func(m *Machine, fr *frame, a []value) value { return rvalue{a[0].(iface)} }
	e["(reflect.Value).Kind"] = func(m *Machine, fr *frame, a []value) value {
		return uint64(kindOf(a[0].(rvalue).v.t))
	}
	e["(reflect.Value).Bool"] = func(m *Machine, fr *frame, a []value) value { return a[0].(rvalue).v.v }
	e["(reflect.Value).String"] = func(m *Machine, fr *frame, a []value) value {
		rv := a[0].(rvalue)
		if rv.v.t != nil && isString(rv.v.t) {
			return rv.v.v
		}
		return "<" + fmt.Sprint(rv.v.t) + " Value>"
	}
	e["(reflect.Value).Float"] = func(m *Machine, fr *frame, a []value) value { return a[0].(rvalue).v.v }
	e["(reflect.Value).Int"] = func(m *Machine, fr *frame, a []value) value { return a[0].(rvalue).v.v }
	e["(reflect.Value).IsNil"] = func(m *Machine, fr *frame, a []value) value {
		rv := a[0].(rvalue)
		switch x := rv.v.v.(type) {
		case *value:
			return x == nil
		case []value:
			return x == nil
		case *mapv:
			return x == nil
		case iface:
			return x.t == nil
		case *closure:
			return x == nil
		case *ssa.Function:
			return x == nil
		}
		panic(&targetPanic{v: iface{t: types.Typ[types.String], v: "reflect: IsNil of non-nillable value"}, site: m.where(), origin: "reflect"})
	}
	e["(reflect.Kind).String"] = func(m *Machine, fr *frame, a []value) value {
		return reflect.Kind(bitsOf(a[0])).String()
	}
	e["reflect.DeepEqual"] = func(m *Machine, fr *frame, a []value) value {
		return m.deepEqual(a[0], a[1], 0)
	}

	// ---- sync ----
	nop := func(m *Machine, fr *frame, a []value) value { return nil }
	lock := func(kind string) extFn {
		return func(m *Machine, fr *frame, a []value) value {
			if h, ok := m.Scratch["lockHook"].(func(kind string, mu *value, fr *frame)); ok {
				h(kind, a[0].(*value), fr)
			}
			return nil
		}
	}
	e["(*sync.RWMutex).Lock"] = lock("Lock")
	e["(*sync.RWMutex).Unlock"] = lock("Unlock")
	e["(*sync.RWMutex).RLock"] = lock("RLock")
	e["(*sync.RWMutex).RUnlock"] = lock("RUnlock")
	e["(*sync.Mutex).Lock"] = lock("Lock")
	e["(*sync.Mutex).Unlock"] = lock("Unlock")
	e["(*sync.Once).Do"] = func(m *Machine, fr *frame, a []value) value {
		abort("sync.Once not supported")
		return nil
	}
	_ = nop
	e["(*sync.Pool).Get"] = func(m *Machine, fr *frame, a []value) value {
		p := a[0].(*value)
		pools, _ := m.Scratch["pools"].(map[*value][]value)
		if pools == nil {
			pools = map[*value][]value{}
			m.Scratch["pools"] = pools
		}
		if l := pools[p]; len(l) > 0 {
			v := l[len(l)-1]
			pools[p] = l[:len(l)-1]
			return v
		}
		st := (*p).(structure)
		// field "New" is the last field of sync.Pool
		newFn := st[len(st)-1]
		if isNilFunc(newFn) {
			return iface{}
		}
		return m.call(fr, token.NoPos, newFn, nil)
	}
	e["(*sync.Pool).Put"] = func(m *Machine, fr *frame, a []value) value {
		p := a[0].(*value)
		pools, _ := m.Scratch["pools"].(map[*value][]value)
		if pools == nil {
			pools = map[*value][]value{}
			m.Scratch["pools"] = pools
		}
		if h, ok := m.Scratch["poolPutHook"].(func(v value, fr *frame)); ok {
			h(a[1], fr)
		}
		if a[1].(iface).t != nil {
			pools[p] = append(pools[p], a[1])
		}
		return nil
	}

	// ---- hash/fnv (FNV-64a): real on concrete bytes, abstract once a byte is symbolic ----
	type fnvState struct {
		s string
		b []*sym.Term
	}
	fnvOf := func(m *Machine, p *value) *fnvState {
		st, _ := m.Scratch["fnv"].(map[*value]*fnvState)
		if st == nil {
			st = map[*value]*fnvState{}
			m.Scratch["fnv"] = st
		}
		if st[p] == nil {
			st[p] = &fnvState{}
		}
		return st[p]
	}
	e["(*hash/fnv.sum64a).Write"] = func(m *Machine, fr *frame, a []value) value {
		p := a[0].(*value)
		st := fnvOf(m, p)
		h := bitsOf(*p)
		data := a[1].([]value)
		for _, c := range data {
			b := byte(bitsOf(c))
			h ^= uint64(b)
			h *= 1099511628211
			st.s += string([]byte{b})
			if sv, ok := c.(*symv); ok {
				st.b = append(st.b, sv.t)
			} else {
				st.b = append(st.b, nil)
			}
		}
		*p = h
		return tuple{int64(len(data)), iface{}}
	}
	e["(*hash/fnv.sum64a).Sum64"] = func(m *Machine, fr *frame, a []value) value {
		p := a[0].(*value)
		st := fnvOf(m, p)
		abstract := m.PS().Params["abstracthash"] != ""
		for _, t := range st.b {
			if t != nil {
				abstract = true
			}
		}
		if abstract {
			m.Stubs["abstract:hash/fnv.Sum64"]++
			return &hashv{c: bitsOf(*p), s: st.s, b: append([]*sym.Term(nil), st.b...)}
		}
		return bitsOf(*p)
	}

	// ---- regexp: host objects on concrete operands, uninterpreted (havoc, memoised) on symbolic ones ----
	strKey := func(v value) string {
		switch v := v.(type) {
		case string:
			return "c:" + v
		case *symstr:
			k := fmt.Sprintf("s%d", len(v.s))
			for i, t := range v.b {
				if t != nil {
					k += fmt.Sprintf(":t%d", t.ID)
				} else {
					k += fmt.Sprintf(":c%d", v.s[i])
				}
			}
			return k
		}
		return "?"
	}
	type symRe struct {
		key string
		re  *regexp.Regexp // nil when the pattern is symbolic
	}
	memoOf := func(m *Machine) map[string]value {
		mm, _ := m.Scratch["reMemo"].(map[string]value)
		if mm == nil {
			mm = map[string]value{}
			m.Scratch["reMemo"] = mm
		}
		return mm
	}
	havocBool := func(m *Machine, tag string, def bool) value {
		n, _ := m.Scratch["havocN"].(int)
		m.Scratch["havocN"] = n + 1
		name := fmt.Sprintf("havoc#%s#%d", tag, n)
		v := m.Ctx.Var(name, sym.Bool)
		c := def
		if mv, ok := m.Model[name]; ok {
			c = mv.B()
		} else {
			m.Model[name] = sym.BoolVal(c)
		}
		return &symv{c: c, t: v}
	}
	e["regexp.Compile"] = func(m *Machine, fr *frame, a []value) value {
		if h, ok := m.Scratch["regexpCompileHook"].(func(m *Machine, fr *frame, pat value) value); ok {
			return h(m, fr, a[0])
		}
		key := "compile:" + strKey(a[0])
		memo := memoOf(m)
		if r, ok := memo[key]; ok {
			return r
		}
		var r value
		if ss, isS := a[0].(*symstr); isS {
			m.Stubs["havoc:regexp.Compile"]++
			_, nerr := regexp.Compile(ss.s)
			if m.truth(havocBool(m, "regexp.Compile.ok", nerr == nil), "regexp-compile-ok") {
				var cell value = &native{v: &symRe{key: key}}
				r = tuple{&cell, iface{}}
			} else {
				r = tuple{(*value)(nil), m.hostError(fr, "regexp", "*syntax.Error", "error parsing regexp")}
			}
		} else {
			re, err := regexp.Compile(a[0].(string))
			if err != nil {
				r = tuple{(*value)(nil), m.hostError(fr, "regexp", "*syntax.Error", err.Error())}
			} else {
				var cell value = &native{v: &symRe{key: key, re: re}}
				r = tuple{&cell, iface{}}
			}
		}
		memo[key] = r
		return r
	}
	e["regexp.MustCompile"] = func(m *Machine, fr *frame, a []value) value {
		re, err := regexp.Compile(m.concretizeStr(a[0]))
		if err != nil {
			panic(&targetPanic{v: iface{t: types.Typ[types.String], v: err.Error()}, site: m.where(), origin: "regexp"})
		}
		var cell value = &native{v: &symRe{key: "compile:c:" + re.String(), re: re}}
		return &cell
	}
	hostRe := func(m *Machine, p value) *symRe {
		pp := p.(*value)
		if pp == nil {
			m.fault("nil pointer dereference (*regexp.Regexp)")
		}
		return (*pp).(*native).v.(*symRe)
	}
	e["(*regexp.Regexp).MatchString"] = func(m *Machine, fr *frame, a []value) value {
		re := hostRe(m, a[0])
		if re.re != nil && !isSym(a[1]) {
			return re.re.MatchString(a[1].(string))
		}
		key := "match:" + re.key + "|" + strKey(a[1])
		memo := memoOf(m)
		if r, ok := memo[key]; ok {
			return r
		}
		m.Stubs["havoc:regexp.MatchString"]++
		def := false
		if re.re != nil {
			def = re.re.MatchString(concStr(a[1]))
		}
		r := havocBool(m, "regexp.MatchString", def)
		memo[key] = r
		return r
	}
	e["(*regexp.Regexp).NumSubexp"] = func(m *Machine, fr *frame, a []value) value {
		re := hostRe(m, a[0])
		if re.re != nil {
			return int64(re.re.NumSubexp())
		}
		key := "nsub:" + re.key
		memo := memoOf(m)
		if r, ok := memo[key]; ok {
			return r
		}
		n, _ := m.Scratch["havocN"].(int)
		m.Scratch["havocN"] = n + 1
		m.Stubs["havoc:regexp.NumSubexp"]++
		r := m.inputInt(fmt.Sprintf("havoc#NumSubexp#%d", n), 0, 2)
		memo[key] = r
		return r
	}
	e["(*regexp.Regexp).ReplaceAllString"] = func(m *Machine, fr *frame, a []value) value {
		re := hostRe(m, a[0])
		if re.re != nil && !isSym(a[1]) && !isSym(a[2]) {
			return re.re.ReplaceAllString(a[1].(string), a[2].(string))
		}
		key := "repl:" + re.key + "|" + strKey(a[1]) + "|" + strKey(a[2])
		memo := memoOf(m)
		if r, ok := memo[key]; ok {
			return r
		}
		m.Stubs["havoc:regexp.ReplaceAllString"]++
		n, _ := m.Scratch["havocN"].(int)
		m.Scratch["havocN"] = n + 1
		r := m.inputStr(fmt.Sprintf("havoc#ReplaceAll#%d", n), 2, "xmlascii")
		memo[key] = r
		m.Scratch["lastReplace"] = []value{a[0], a[1], a[2], r}
		return r
	}
	// other replacement / search entry points: the host's answer on concrete operands, an
	// uninterpreted result of their own otherwise (never identified with ReplaceAllString)
	for _, nm := range []string{"ReplaceAllLiteralString", "FindString"} {
		nm := nm
		e["(*regexp.Regexp)."+nm] = func(m *Machine, fr *frame, a []value) value {
			re := hostRe(m, a[0])
			allConc := re.re != nil
			for _, x := range a[1:] {
				if isSym(x) {
					allConc = false
				}
			}
			if allConc {
				if nm == "FindString" {
					return re.re.FindString(a[1].(string))
				}
				return re.re.ReplaceAllLiteralString(a[1].(string), a[2].(string))
			}
			key := nm + ":" + re.key
			for _, x := range a[1:] {
				key += "|" + strKey(x)
			}
			memo := memoOf(m)
			if r, ok := memo[key]; ok {
				return r
			}
			m.Stubs["havoc:regexp."+nm]++
			n, _ := m.Scratch["havocN"].(int)
			m.Scratch["havocN"] = n + 1
			r := m.inputStr(fmt.Sprintf("havoc#%s#%d", nm, n), 2, "xmlascii")
			memo[key] = r
			return r
		}
	}
	e["(*regexp.Regexp).String"] = func(m *Machine, fr *frame, a []value) value {
		re := hostRe(m, a[0])
		if re.re != nil {
			return re.re.String()
		}
		return "<symbolic pattern>"
	}
}

// havocFloat returns an unconstrained float64 of the environment: a fresh
// variable whose value is whatever the solver's model says, or def when the
// model does not mention it yet.
func (m *Machine) havocFloat(tag string, def float64) *symv {
	n, _ := m.Scratch["havocN"].(int)
	m.Scratch["havocN"] = n + 1
	name := fmt.Sprintf("havoc#%s#%d", tag, n)
	v := m.Ctx.Var(name, sym.FP)
	c := def
	if mv, ok := m.Model[name]; ok {
		c = mv.F()
	} else {
		m.Model[name] = sym.FPVal(c)
	}
	return &symv{c: c, t: v}
}

// asciiTable turns a predicate on runes into a term over a symbolic rune that
// is known (by an earlier class assumption) or decided here to be ASCII.
func (m *Machine) asciiTable(s *symv, pred func(rune) bool) value {
	c := m.Ctx
	w := s.t.Sort.W
	r := rune(asInt(s.c))
	if w > 8 {
		ascii := c.BvCmp(sym.OBvUlt, s.t, c.BVC(w, 0x80))
		if !m.truth(mkSym(r >= 0 && r < 0x80, ascii), "rune-ascii") {
			m.concretize(s)
			return pred(r)
		}
	}
	// ranges of ASCII code points satisfying pred
	var disj []*sym.Term
	for lo := 0; lo < 128; lo++ {
		if !pred(rune(lo)) {
			continue
		}
		hi := lo
		for hi+1 < 128 && pred(rune(hi+1)) {
			hi++
		}
		if lo == hi {
			disj = append(disj, c.Eq(s.t, c.BVC(w, uint64(lo))))
		} else {
			disj = append(disj, c.And(c.BvCmp(sym.OBvUle, c.BVC(w, uint64(lo)), s.t), c.BvCmp(sym.OBvUle, s.t, c.BVC(w, uint64(hi)))))
		}
		lo = hi
	}
	t := c.Or(disj...)
	if w == 8 {
		t = c.And(t, c.BvCmp(sym.OBvUlt, s.t, c.BVC(8, 0x80)))
		if r >= 0x80 {
			// bytes ≥ 0x80 never satisfy ASCII predicates as single bytes here
			return mkSym(pred(r), c.And(c.Not(c.BvCmp(sym.OBvUlt, s.t, c.BVC(8, 0x80))), c.BoolC(pred(r))))
		}
	}
	return mkSym(pred(r), t)
}

// hostRangeTable converts an interpreted *unicode.RangeTable to a host one (cached).
func (m *Machine) hostRangeTable(p *value) *unicode.RangeTable {
	cache, _ := m.Scratch["rangeTables"].(map[*value]*unicode.RangeTable)
	if cache == nil {
		cache = map[*value]*unicode.RangeTable{}
		m.Scratch["rangeTables"] = cache
	}
	if t, ok := cache[p]; ok {
		return t
	}
	st := (*p).(structure)
	t := &unicode.RangeTable{}
	for _, r := range st[0].([]value) {
		rs := r.(structure)
		t.R16 = append(t.R16, unicode.Range16{Lo: uint16(bitsOf(rs[0])), Hi: uint16(bitsOf(rs[1])), Stride: uint16(bitsOf(rs[2]))})
	}
	for _, r := range st[1].([]value) {
		rs := r.(structure)
		t.R32 = append(t.R32, unicode.Range32{Lo: uint32(bitsOf(rs[0])), Hi: uint32(bitsOf(rs[1])), Stride: uint32(bitsOf(rs[2]))})
	}
	t.LatinOffset = int(asInt(st[2]))
	cache[p] = t
	return t
}

func kindOf(t types.Type) reflect.Kind {
	if t == nil {
		return reflect.Invalid
	}
	switch u := t.Underlying().(type) {
	case *types.Basic:
		switch u.Kind() {
		case types.Bool:
			return reflect.Bool
		case types.Int:
			return reflect.Int
		case types.Int8:
			return reflect.Int8
		case types.Int16:
			return reflect.Int16
		case types.Int32:
			return reflect.Int32
		case types.Int64:
			return reflect.Int64
		case types.Uint:
			return reflect.Uint
		case types.Uint8:
			return reflect.Uint8
		case types.Uint16:
			return reflect.Uint16
		case types.Uint32:
			return reflect.Uint32
		case types.Uint64:
			return reflect.Uint64
		case types.Uintptr:
			return reflect.Uintptr
		case types.Float32:
			return reflect.Float32
		case types.Float64:
			return reflect.Float64
		case types.String:
			return reflect.String
		case types.UnsafePointer:
			return reflect.UnsafePointer
		}
	case *types.Pointer:
		return reflect.Ptr
	case *types.Struct:
		return reflect.Struct
	case *types.Slice:
		return reflect.Slice
	case *types.Array:
		return reflect.Array
	case *types.Map:
		return reflect.Map
	case *types.Signature:
		return reflect.Func
	case *types.Interface:
		return reflect.Interface
	case *types.Chan:
		return reflect.Chan
	}
	return reflect.Invalid
}

// newError allocates an *errors.errorString and records which package made it.
func (m *Machine) newError(fr *frame, msg value) value {
	pkg := m.Prog.ImportedPackage("errors")
	if pkg == nil {
		abort("package errors not loaded")
	}
	t := pkg.Type("errorString").Type()
	var cell value = structure{msg}
	p := &cell
	m.noteOrigin(p, fr.caller)
	return iface{t: types.NewPointer(t), v: p}
}

// hostError is an error value created by a std package (a "foreign" error).
func (m *Machine) hostError(fr *frame, pkgPath, typeName, msg string) value {
	v := m.newError(fr, msg).(iface)
	o := m.Scratch["origin"].(map[*value]string)
	o[v.v.(*value)] = pkgPath
	ft, _ := m.Scratch["foreignType"].(map[*value]string)
	if ft == nil {
		ft = map[*value]string{}
		m.Scratch["foreignType"] = ft
	}
	ft[v.v.(*value)] = typeName
	return v
}

// sprintf formats like fmt.Sprintf; %s / %v of a string with symbolic bytes
// splices those bytes into the result instead of concretising them.
func (m *Machine) sprintf(fr *frame, format string, args []value) value {
	hasSym := false
	for _, a := range args {
		if iv, ok := a.(iface); ok {
			if _, isS := iv.v.(*symstr); isS {
				hasSym = true
			}
		}
	}
	if !hasSym {
		return fmt.Sprintf(format, m.hostArgs(fr, args)...)
	}
	var out []byte
	var terms []*sym.Term
	lit := func(s string) {
		out = append(out, s...)
		for range s {
			terms = append(terms, nil)
		}
	}
	ai := 0
	for i := 0; i < len(format); i++ {
		c := format[i]
		if c != '%' || i+1 >= len(format) {
			lit(string(c))
			continue
		}
		i++
		verb := format[i]
		if verb == '%' {
			lit("%")
			continue
		}
		if ai >= len(args) {
			lit("%!" + string(verb) + "(MISSING)")
			continue
		}
		arg := args[ai]
		ai++
		if iv, ok := arg.(iface); ok && (verb == 's' || verb == 'v') {
			if ss, isS := iv.v.(*symstr); isS {
				out = append(out, ss.s...)
				terms = append(terms, ss.b...)
				continue
			}
		}
		if verb != 's' && verb != 'v' && verb != 'd' && verb != 'q' && verb != 'T' && verb != 'f' && verb != 'g' {
			// flags / widths: fall back to whole-string formatting on concrete values
			return fmt.Sprintf(format, m.hostArgs(fr, args)...)
		}
		lit(fmt.Sprintf("%"+string(verb), m.hostValue(fr, arg)))
	}
	return mkStr(string(out), terms)
}

// hostArgs converts interpreted values to host values for fmt.
func (m *Machine) hostArgs(fr *frame, args []value) []interface{} {
	out := make([]interface{}, len(args))
	for i, a := range args {
		out[i] = m.hostValue(fr, a)
	}
	return out
}

type hostTypeName string

func (h hostTypeName) Format(f fmt.State, verb rune) { fmt.Fprint(f, string(h)) }

func (m *Machine) hostValue(fr *frame, v value) interface{} {
	switch v := v.(type) {
	case iface:
		if v.t == nil {
			return nil
		}
		if v.t.String() == "reflect.Kind" {
			return reflect.Kind(bitsOf(v.v))
		}
		// error / Stringer
		for _, name := range []string{"Error", "String"} {
			if sel := m.Prog.MethodSets.MethodSet(v.t).Lookup(nil, name); sel == nil {
				continue
			}
			if f := m.Prog.LookupMethod(v.t, nil, name); f != nil && f.Signature.Params().Len() == 0 && f.Signature.Results().Len() == 1 && isString(f.Signature.Results().At(0).Type()) {
				if p, ok := v.v.(*value); ok && p == nil {
					return "<nil>"
				}
				s := m.call(fr, token.NoPos, f, []value{v.v})
				return hostStringer(m.concretizeStr(s))
			}
		}
		if b, ok := v.t.Underlying().(*types.Basic); ok {
			c := m.concretizeDeep(v.v)
			switch b.Kind() {
			case types.Int:
				return int(c.(int64))
			case types.Int32:
				return int32(c.(int64))
			case types.Uint8:
				return uint8(c.(uint64))
			}
			return c
		}
		return hostTypeName("<" + v.t.String() + ">")
	case *symv, *symstr:
		return m.concretizeDeep(v)
	}
	return v
}

type hostStringer string

func (h hostStringer) String() string { return string(h) }

// deepEqual implements reflect.DeepEqual on interpreted values (concrete only).
func (m *Machine) deepEqual(a, b value, depth int) bool {
	if depth > 50 {
		abort("deepEqual too deep")
	}
	a, b = m.concretizeDeep(a), m.concretizeDeep(b)
	switch x := a.(type) {
	case iface:
		y, ok := b.(iface)
		if !ok {
			return false
		}
		if x.t == nil || y.t == nil {
			return x.t == nil && y.t == nil
		}
		if !sameType(x.t, y.t) {
			return false
		}
		return m.deepEqual(x.v, y.v, depth+1)
	case *value:
		y, ok := b.(*value)
		if !ok {
			return false
		}
		if x == nil || y == nil {
			return x == y
		}
		if x == y {
			return true
		}
		return m.deepEqual(*x, *y, depth+1)
	case []value:
		y, ok := b.([]value)
		if !ok || (x == nil) != (y == nil) || len(x) != len(y) {
			return false
		}
		for i := range x {
			if !m.deepEqual(x[i], y[i], depth+1) {
				return false
			}
		}
		return true
	case structure:
		y, ok := b.(structure)
		if !ok || len(x) != len(y) {
			return false
		}
		for i := range x {
			if !m.deepEqual(x[i], y[i], depth+1) {
				return false
			}
		}
		return true
	case array:
		y, ok := b.(array)
		if !ok || len(x) != len(y) {
			return false
		}
		for i := range x {
			if !m.deepEqual(x[i], y[i], depth+1) {
				return false
			}
		}
		return true
	case *mapv:
		y, ok := b.(*mapv)
		if !ok || (x == nil) != (y == nil) || x.length() != y.length() {
			return false
		}
		if x == nil {
			return true
		}
		for k, v := range x.m {
			w, ok := y.m[k]
			if !ok || !m.deepEqual(v, w, depth+1) {
				return false
			}
		}
		return true
	case float64:
		y, ok := b.(float64)
		return ok && x == y
	case *closure, *ssa.Function:
		return isNilFunc(a) && isNilFunc(b)
	}
	return a == b
}
