package main

import (
	"fmt"
	"runtime/debug"
	"runtime/pprof"
	"os"
	"time"

	"gosym/checks"
	"gosym/oracle"
	"gosym/sym"
	"gosym/vm"
)

func main() {
	if len(os.Args) < 2 {
		fmt.Println("usage: gosym <cmd>")
		os.Exit(2)
	}
	debug.SetGCPercent(400)
	switch os.Args[1] {
	case "check":
		id := os.Args[2]
		tier := os.Getenv("VERIF_TIER")
		verbose := false
		only := ""
		for i := 3; i < len(os.Args); i++ {
			switch os.Args[i] {
			case "--tier":
				i++
				tier = os.Args[i]
			case "-v":
				verbose = true
			case "--only":
				i++
				only = os.Args[i]
			}
		}
		if tier == "" {
			tier = "quick"
		}
		var seed int64 = 1
		if sd := os.Getenv("VERIF_SEED"); sd != "" {
			fmt.Sscanf(sd, "%d", &seed)
		}
		checks.Only = only
		os.Exit(checks.Execute(id, tier, seed, verbose))
	case "replay":
		if len(os.Args) < 3 {
			fmt.Println("usage: gosym replay <file>")
			os.Exit(2)
		}
		os.Exit(checks.Replay(os.Args[2]))
	case "selftest":
		os.Exit(checks.SelfTest())
	case "probe":
		if pf := os.Getenv("GOSYM_PROF"); pf != "" {
			f, _ := os.Create(pf)
			pprof.StartCPUProfile(f)
			defer pprof.StopCPUProfile()
		}
		t0 := time.Now()
		p, err := vm.Load(checks.RepoDir, checks.HarnessDir, false)
		if err != nil {
			fmt.Println(err)
			os.Exit(2)
		}
		fmt.Println("loaded in", time.Since(t0))
		s, err := sym.NewSolverOpt(solverName(), sym.NewCtx(), 20000, os.Getenv("GOSYM_NOCORES") == "")
		if err != nil {
			fmt.Println(err)
			os.Exit(2)
		}
		e := vm.NewExplorer(p, s)
		inst := &vm.Instance{ID: "probe", Harness: os.Args[2], Params: map[string]string{}}
		for _, kv := range os.Args[3:] {
			for i := 0; i < len(kv); i++ {
				if kv[i] == '=' {
					inst.Params[kv[:i]] = kv[i+1:]
					break
				}
			}
		}
		if x, ok := inst.Params["expr"]; ok && os.Getenv("GOSYM_NOORACLE") == "" {
			ast, err := oracle.Parse(x)
			if err != nil {
				fmt.Println(err)
				os.Exit(2)
			}
			fmt.Println("oracle AST:", ast.String())
			inst.Extra = &vm.OracleExtra{Exprs: map[string]oracle.Expr{"expr": ast}}
		}
		if mp := os.Getenv("GOSYM_MAXPATHS"); mp != "" {
			fmt.Sscanf(mp, "%d", &e.MaxPaths)
		}
		t0 = time.Now()
		e.Explore(inst)
		fmt.Printf("explored in %v: %+v\n", time.Since(t0), e.Stats)
		fmt.Printf("solver: queries=%d sat=%d unsat=%d unknown=%d time=%v errors=%v\n", s.Queries, s.NSat, s.NUnsat, s.NUnknown, s.SolveTime, s.Errors)
		if os.Getenv("GOSYM_DEBUG") != "" {
			for _, sm := range e.Samples {
				why := map[string]int{}
				for _, d := range sm.PC {
					why[d.Why]++
				}
				fmt.Println("sample path PC:", len(sm.PC), why)
				for i, d := range sm.PC {
					if i > 60 {
						break
					}
					fmt.Printf("   %v %s [%s]\n", d.Taken, d.T, d.Why)
				}
			}
		}
		for _, v := range e.Viol {
			fmt.Printf("VIOLATION %s %s inputs=%v observed=%v\n", v.Label, v.Info, v.Inputs, v.Observed)
		}
	}
}

func solverName() string {
	if s := os.Getenv("GOSYM_SOLVER"); s != "" {
		return s
	}
	return "z3"
}
