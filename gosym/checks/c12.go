package checks

import (
	"strings"
	"math/rand"
	"time"

	"gosym/oracle"
	"gosym/vm"
)

func init() {
	register(&Check{
		ID: "C12",
		Explain: "Each instance is a node-set expression; the harness runs Select, Evaluate, count() and reverse() on freshly " +
			"compiled copies over one symbolic document/context and a symbolic number (0..3) of extra MoveNext calls. On every " +
			"path: flat paths come out strictly increasing in document order; Evaluate's iterator yields the same sequence as " +
			"Select; count() is its length; reverse() is it reversed; MoveNext stays false; and the set equals the reference (solver obligation).",
		Technique: "concolic symbolic execution of go/ssa; sequence relations asserted on every explored path, set obligation decided by SMT (z3) against a reference XPath semantics",
		Assume: []string{
			"navigator contract of harness/nav.go; node references are compared by (slot, attribute index), document order is slot order with an element's attributes right after it",
			"reference semantics gosym/oracle for the set part",
		},
		Build: buildC12,
	})
}

func seqInst(text string, cfg docCfg, flat bool) *vm.Instance {
	in := nodesetInst(text, cfg)
	in.Harness = "H_sequence"
	if flat {
		in.Params["flat"] = "1"
		in.ID += " flat"
	}
	return in
}

func buildC12(tier string, seed int64) *Family {
	r := rand.New(rand.NewSource(seed))
	cfg := docCfg{N: 4, A: 1, Names: "a,b", Pool: ",1"}
	nSeed := 50
	if tier == "thorough" {
		cfg = docCfg{N: 5, A: 1, Names: "a,b", Pool: ",1"}
		nSeed = 500
	}
	var insts []*vm.Instance
	// (a) flat paths: child / attribute / self steps from one context, single descendant step
	flat := []string{"a", "*", "child::node()", "@*", "@a", ".", "self::*", "text()", "a/a", "*/*", "*/a", "a/@a", "*/@*", "./a", "a/.", "*/text()", "*/*/*",
		"//a", "//*", "descendant::a", "descendant::*", "descendant::node()", "//text()", "descendant-or-self::*",
		"*[a]", "a[@a]", "*[. = '1']", "*[not(a)]", "*[1]", "*[last()]", "a[2]", "*[position() > 1]", "*/*[1]", "*[1][a]", "*[count(a) = 1]", "*[a]/@a"}
	for _, f := range flat {
		insts = append(insts, seqInst(f, cfg, true))
	}
	// the same flat forms over prefixed names (documents whose nodes carry a symbolic prefix)
	for _, f := range []string{"p:a", "//p:a", "*/p:a", "descendant::p:a", "p:a/a", "//p:a/@a", "p:a/p:a", ".//p:a", "@p:a", "descendant-or-self::p:a"} {
		pc := docCfg{N: cfg.N, A: 0, Names: "a,b", Pool: ","}
		if strings.Contains(f, "@") {
			pc = docCfg{N: cfg.N - 1, A: 1, Names: "a,b", Pool: ","}
		}
		in := seqInst(f, pc, true)
		in.Params["prefixes"] = ",p"
		in.ID += " prefixed"
		insts = append(insts, in)
	}
	// (b) node-set expressions in general
	gen := []string{"//a[@a]", "//*[a]", "//*[count(a) = 1]", "..", "../*", "ancestor::*", "ancestor-or-self::node()", "preceding::*", "preceding-sibling::*", "following::*", "following-sibling::*",
		"a | *", "//a | //*", "* | @*", "(//*)[2]", "(a)[1]", "//*/..", "//a/ancestor::*", "*/following-sibling::a", "//*[following::a]", "//*[ancestor::a]", "*/(a, b)",
		"/", "/*", "//@*", "//a//a", "a//a", ".//.", "//*[preceding-sibling::*]/.."}
	for _, g := range gen {
		insts = append(insts, seqInst(g, cfg, false))
	}
	for k := 0; k < nSeed; k++ {
		t := pick(r, oracle.Axes) + "::" + pick(r, nodeTests)
		if k%2 == 0 {
			t += pick(r, []string{"/", "//"}) + pick(r, oracle.Axes) + "::" + pick(r, nodeTests)
		}
		if k%5 == 0 {
			t += " | " + pick(r, oracle.Axes) + "::" + pick(r, nodeTests)
		}
		insts = append(insts, seqInst(t, cfg, false))
	}
	can1 := canaryInst("H_sequence", "//a", "//*", cfg)
	return &Family{
		Instances: dedupInst(insts),
		Canaries:  []*vm.Instance{can1},
		Bounds: map[string]interface{}{
			"document_slots_N_including_root": cfg.N, "attributes_per_element_A": cfg.A, "extra_MoveNext_calls": "0..3 (symbolic)",
		},
		Rule: "instance = node-set expression (flat paths with C02/C03 predicates carry the document-order obligation; all carry the " +
			"Select/Evaluate/count/reverse/MoveNext relations); case = explored symbolic path; non-trivial = reference set non-empty in the path's model",
		Outside: []string{"order of non-flat paths (reverse axes, unions, multi-step descendant paths)", "documents beyond the bounds"},
		PerInst: 10 * time.Minute,
	}
}
