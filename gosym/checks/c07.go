package checks

import (
	"fmt"
	"math/rand"
	"strings"
	"time"

	"gosym/oracle"
	"gosym/vm"
)

func init() {
	register(&Check{
		ID: "C07",
		Explain: "Each instance is a comparison or boolean expression L op R (top level or inside a predicate). Numeric literals are " +
			"symbolic doubles (any value incl. NaN, +-Inf, +-0), string literals are symbolic bytes, node-set operands are flat paths on a " +
			"symbolic document whose node values come from a pool (numeric and non-numeric). Evaluate runs symbolically; on every path " +
			"the solver decides result = XPath 1.0 reference (existential node-set comparison, NaN for non-numeric strings, short-circuit " +
			"and/or), and any panic leaving the comparison is a violation.",
		Technique: "concolic symbolic execution of go/ssa + SMT (z3, FP+BV) per-path value obligation against a reference XPath semantics",
		Assume: []string{
			"navigator contract of harness/nav.go; node string-values are per-node symbols drawn from the stated pool",
			"number x string comparisons use concrete string literals (strconv.ParseFloat is not encoded for symbolic bytes)",
			"reference semantics gosym/oracle (XPath 1.0 §3.4, §4.3)",
		},
		Build: buildC07,
	})
}

// valueInst: H_value on text (with holes).
func valueInst(text string, cfg docCfg) *vm.Instance {
	ast := oracle.BindHoles(oracle.MustParse(text))
	p := cfg.params()
	p["expr"] = text
	for k := 1; k <= 9; k++ {
		if strings.Contains(text, fmt.Sprintf("900%d", k)) {
			p[fmt.Sprintf("hole.h%d", k)] = "any"
		}
		if strings.Contains(text, fmt.Sprintf("#S%d", k)) {
			p[fmt.Sprintf("hole.S%d", k)] = "2:xmlascii"
		}
	}
	return &vm.Instance{ID: text + " @" + cfg.tag(), Harness: "H_value", Params: p,
		Extra: &vm.OracleExtra{Exprs: map[string]oracle.Expr{"expr": ast, "reuse": ast}}}
}

// withValueReuse makes every k-th H_value instance evaluate a second time with the same
// compiled expression.
func withValueReuse(insts []*vm.Instance, k int) []*vm.Instance {
	for i, in := range insts {
		if in.Harness == "H_value" && i%k == 0 {
			in.Params["reuse"] = "1"
		}
	}
	return insts
}

func valueCanary(text, wrong string, cfg docCfg) *vm.Instance {
	in := valueInst(text, cfg)
	in.ID = "canary " + text + " vs " + wrong
	w := oracle.BindHoles(oracle.MustParse(wrong))
	in.Extra = &vm.OracleExtra{Exprs: map[string]oracle.Expr{"expr": w, "reuse": w}}
	return in
}

func buildC07(tier string, seed int64) *Family {
	r := rand.New(rand.NewSource(seed))
	cfg := docCfg{N: 3, A: 1, Names: "a,b", Pool: ",1,2,-1,x"}
	nSeed := 60
	if tier == "thorough" {
		cfg = docCfg{N: 4, A: 1, Names: "a,b", Pool: ",0,1,10,-1,x,1x"}
		nSeed = 600
	}
	rel := []string{"=", "!=", "<", "<=", ">", ">="}
	eq := []string{"=", "!="}
	ns := []string{"a", "@a", "*", "//a", "a/text()", ".", "*/@a"}
	strLits := []string{"''", "'1'", "'x'", "'-1'", "'1.5'", "'2'", "'1x'", "'0'"}
	var ex []string
	for _, op := range rel {
		ex = append(ex, "9001 "+op+" 9002")
		for _, n := range ns {
			ex = append(ex, n+" "+op+" 9001", "9001 "+op+" "+n)
		}
		for _, s := range strLits {
			ex = append(ex, "9001 "+op+" "+s, s+" "+op+" 9001")
		}
	}
	for _, op := range eq {
		ex = append(ex, "'#S1' "+op+" '#S2'", "true() "+op+" false()", "true() "+op+" 9001", "'#S1' "+op+" true()", "a "+op+" true()")
		for _, n := range ns {
			ex = append(ex, n+" "+op+" '#S1'", "'#S1' "+op+" "+n)
			for _, n2 := range ns[:4] {
				ex = append(ex, n+" "+op+" "+n2)
			}
		}
	}
	// and / or over operands of every type, short-circuit, not(), boolean()
	opd := []string{"9001", "'#S1'", "true()", "false()", "a", "@a", "a = 1", "a < 9002", "not(a)"}
	for _, l := range opd {
		for _, rr := range opd {
			rr2 := strings.NewReplacer("9001", "9003", "9002", "9004", "#S1", "#S3").Replace(rr)
			ex = append(ex, l+" and "+rr2, l+" or "+rr2)
		}
		ex = append(ex, "boolean("+l+")")
	}
	ex = append(ex, "not(a)", "not(true())", "not(false())", "not(a = 1)", "not(//a)", "not(@a)", "not(a | @a)", "not(not(a))",
		"true()", "false()", "true() or contains(1, 2)", "false() and contains(1, 2)", "true() or starts-with(1, 1)", "false() and sum('x')",
		"not(false()) or contains(1, 2)", "1 = 1 or contains(1, 2)", "1 = 2 and sum('x')")
	// operand independence: the right operand is evaluated at the context node whatever the
	// left operand did to the shared cursor (and vice versa for node-set x node-set loops)
	for i, mv := range moverPaths {
		for j, st := range stayPaths[:4] {
			op := rel[(i+j)%len(rel)]
			if (i+j)%2 == 0 {
				// node-set x node-set: = and != only (the statement's type combinations)
				ex = append(ex, mv+" "+eq[(i+j/2)%2]+" "+st)
			} else {
				ex = append(ex, "count("+mv+") "+op+" count("+st+")")
			}
			if j == 0 {
				ex = append(ex, mv+" = 9001 or "+st+" = 1", mv+" and "+st, "not("+mv+") or "+st+" = '#S1'")
			}
		}
	}
	// the same inside a predicate
	for k := 0; k < nSeed; k++ {
		c := pick(r, ex)
		if strings.Contains(c, "contains(1") || strings.Contains(c, "starts-with(1") || strings.Contains(c, "sum('x')") {
			continue
		}
		switch k % 3 {
		case 0:
			ex = append(ex, "*["+c+"]")
		case 1:
			ex = append(ex, "//*["+c+"]")
		case 2:
			ex = append(ex, "count(*["+c+"]) = 1")
		}
	}
	var insts []*vm.Instance
	for _, x := range ex {
		insts = append(insts, valueInst(x, cfg))
	}
	// a comparison inside a predicate stops at the first matching child and leaves the others
	// unvisited when the next candidate is tested: 5 slots, elements only
	bcfg := docCfg{N: 5, A: 0, Names: "a,b", Pool: ",1,2"}
	for _, x := range []string{"//*[* > 1]", "//*[a = 2]", "//*[* != 1]", "//*[2 <= *]", "count(//*[* = '2'])", "//*[* = *]", "//*[a >= 1 and b]", "//*[not(* = 1)]"} {
		insts = append(insts, valueInst(x, bcfg))
	}
	// elements with two attributes: an existential comparison over @* stops at the first
	// match and leaves the attribute cursor half-way for the next candidate
	acfg := docCfg{N: 3, A: 2, Names: "a,b", Pool: ",1,2"}
	for _, x := range []string{"//*[@* = 1]", "*[@* = '1']", "count(*[@* < 2])", "//*[1 = @*]", "//*[@* != 1]", "//*[2 > @*]", "count(//*[@* = @a])", "//*[@* = 1 or @b = 2]", "@* = 1", "@* = @*", "*/@* <= 1"} {
		insts = append(insts, valueInst(x, acfg))
	}
	return &Family{
		Instances: withValueReuse(dedupInst(insts), 2),
		Canaries: []*vm.Instance{
			valueCanary("a < 9001", "a <= 9001", cfg),
			valueCanary("a = '#S1'", "a != '#S1'", cfg),
			valueCanary("9001 < 9002", "9001 > 9002", cfg),
			valueCanary("a and @a", "a or @a", cfg),
		},
		Bounds: map[string]interface{}{
			"document_slots_N_including_root": cfg.N, "attributes_per_element_A": cfg.A, "value_pool": cfg.Pool,
			"numeric_literals": "symbolic float64 (any)", "string_literals": "0-2 symbolic XML-legal ASCII bytes (number x string: concrete literals)",
		},
		Rule: "instance = one comparison / boolean expression over the stated operand-type combinations (all 6 operators), at top level and inside predicates (seeded); " +
			"case = explored symbolic path; non-trivial = Evaluate returned without panic",
		Outside: []string{"relational operators between two strings or involving booleans", "not() of a number or string", "pool values with surrounding whitespace or exponent syntax (number() lexical grammar: C08)", "documents beyond the bounds"},
		PerInst: c07PerInst(tier),
	}
}

func c07PerInst(tier string) time.Duration {
	if tier == "thorough" {
		return 12 * time.Minute
	}
	return 3 * time.Minute
}
