package checks

import (
	"fmt"
	"math/rand"
	"strings"
	"time"

	"gosym/vm"
)

func init() {
	register(&Check{
		ID: "C09",
		Explain: "Each instance applies string functions (concat, contains, starts-with, ends-with, substring-before/-after, substring, " +
			"string-length, normalize-space, translate, lower-case, string-join, string) to symbolic strings (every length up to L, bytes free " +
			"over XML-legal ASCII), symbolic finite doubles and flat node-set arguments over a symbolic document. Evaluate runs symbolically " +
			"(std string helpers through Go models validated against the std functions); on every path the solver decides that the returned " +
			"string / number / boolean equals the XPath reference, and no fault or panic path is feasible (substring never fails for finite arguments).",
		Technique: "concolic symbolic execution of go/ssa + SMT (z3, BitVec bytes + FloatingPoint) value obligation per path vs reference XPath semantics",
		Assume: []string{
			"strings are ASCII (XML-legal 0x09,0x0A,0x0D,0x20-0x7E): byte length = character length",
			"Go models of strings.HasPrefix/HasSuffix/Contains/Index/TrimSpace/Trim/ToLower/ReplaceAll/Join/Replacer (harness/models.go) agree with std (checked natively by TestVerifModels)",
			"unicode.IsSpace on ASCII bytes as evaluated natively per code point",
		},
		Build: buildC09,
	})
}

func c09Inst(text string, cfg docCfg, slen int) *vm.Instance {
	in := valueInst(text, cfg)
	for k := 1; k <= 9; k++ {
		if strings.Contains(text, fmt.Sprintf("#S%d", k)) {
			in.Params[fmt.Sprintf("hole.S%d", k)] = fmt.Sprintf("%d:xmlascii", slen)
		}
		if strings.Contains(text, fmt.Sprintf("900%d", k)) {
			in.Params[fmt.Sprintf("hole.h%d", k)] = "finite"
		}
	}
	// two interacting symbolic doubles (start + length) are beyond the FP back ends
	// within the time limits: both range over the quarter steps k/4 in [-3, 7]
	n := 0
	for k := 1; k <= 9; k++ {
		if _, ok := in.Params[fmt.Sprintf("hole.h%d", k)]; ok {
			n++
		}
	}
	threeArg := false
	if i := strings.Index(text, "substring("); i >= 0 {
		depth, commas := 0, 0
		for _, ch := range text[i+len("substring("):] {
			if ch == '(' {
				depth++
			} else if ch == ')' {
				if depth == 0 {
					break
				}
				depth--
			} else if ch == ',' && depth == 0 {
				commas++
			}
		}
		threeArg = commas >= 2
	}
	_ = threeArg
	if n >= 1 && strings.Contains(text, "substring(") && !strings.Contains(text, "9009") {
		rng := "qc:-10:26"
		if n == 2 {
			rng = "qc:-6:14"
		} else if n > 2 {
			rng = "qc:-2:8"
		}
		for k := 1; k <= 9; k++ {
			if _, ok := in.Params[fmt.Sprintf("hole.h%d", k)]; ok {
				in.Params[fmt.Sprintf("hole.h%d", k)] = rng
			}
		}
	}
	return in
}

func buildC09(tier string, seed int64) *Family {
	r := rand.New(rand.NewSource(seed))
	cfg := docCfg{N: 3, A: 1, Names: "a,b", Pool: ",ab, a ,A1"}
	slen, slenBig := 2, 3
	nSeed := 40
	if tier == "thorough" {
		cfg = docCfg{N: 4, A: 1, Names: "a,b", Pool: ",ab, a ,A1,a  b,1"}
		slen, slenBig = 3, 4
		nSeed = 400
	}
	type item struct {
		t string
		l int
	}
	var items []item
	add := func(t string, l int) { items = append(items, item{t, l}) }
	two := []string{"contains", "starts-with", "ends-with", "substring-before", "substring-after"}
	for _, f := range two {
		add(f+"('#S1', '#S2')", slenBig)
		add(f+"(a, '#S1')", slen)
		add(f+"(@a, '#S1')", slen)
		add(f+"('#S1', a)", slen)
		add(f+"(*, 'a')", slen)
		add(f+"('#S1', '')", slenBig)
		add(f+"('', '#S1')", slenBig)
		add(f+"(a, '')", slen)
	}
	add("concat('#S1', '#S2')", slenBig)
	add("concat('#S1', '#S2', '#S3')", slen)
	add("concat(a, '#S1')", slen)
	add("concat(a, @a)", slen)
	add("concat('#S1', 9001)", slen)
	add("concat(a, '-', *)", slen)
	add("string-length('#S1')", slenBig)
	add("string-length(a)", slen)
	add("string-length(@a)", slen)
	add("string-length(concat('#S1', '#S2'))", slen)
	add("normalize-space('#S1')", slenBig+1)
	add("normalize-space(a)", slen)
	add("normalize-space()", slen)
	add("normalize-space(concat(' ', '#S1'))", slen)
	add("translate('#S1', '#S2', '#S3')", slen)
	add("translate('#S1', 'ab', 'c')", slenBig)
	add("translate('#S1', 'abc', '')", slenBig)
	add("translate(a, '#S1', '#S2')", slen)
	add("translate('#S1', 'aa', 'bc')", slenBig)
	add("lower-case('#S1')", slenBig+1)
	add("lower-case(a)", slen)
	add("lower-case(@a)", slen)
	add("string-join(*, '#S1')", slen)
	add("string-join(a, ',')", slen)
	add("string-join(//a, '')", slen)
	add("string-join(@*, '#S1')", slen)
	add("string('#S1')", slenBig)
	add("string(a)", slen)
	add("string(*)", slen)
	add("string(@a)", slen)
	add("string(//a)", slen)
	add("string(.)", slen)
	add("substring('#S1', 9001)", slenBig+1)
	add("substring('#S1', 9001, 9002)", slenBig)
	add("substring(a, 9001)", slen)
	if tier == "thorough" {
		add("substring('#S1', 9009)", slen) // one fully symbolic finite double (FP back end permitting)
	}
	add("substring(a, 9001, 9002)", slen)
	add("substring('12345', 9001, 9002)", slen)
	add("substring('12345', 9001)", slen)
	add("substring('#S1', 2, 9002)", slenBig+1)
	add("substring('#S1', 9001, 2)", slenBig+1)
	add("substring('#S1', 0, 9002)", slenBig)
	add("substring('#S1', -1, 9002)", slenBig)
	add("substring('#S1', 1.5, 2.6)", slenBig+1)
	add("substring('#S1', 0 div 0, 3)", slenBig)
	add("substring('#S1', 1, 0 div 0)", slenBig)
	add("substring('#S1', -42, 1 div 0)", slenBig)
	add("substring('#S1', -1 div 0, 1 div 0)", slenBig)
	// fractional literals written without an integer part
	add("substring('#S1', .5, 2)", slenBig+1)
	add("substring('12345', 1.5, .6)", slen)
	add("substring('#S1', -.5, 2)", slenBig)
	add("substring('#S1', 2., .75 + .75)", slenBig)
	// operand independence: a node-set argument (flat path with a predicate, flat path from the
	// root) evaluated first leaves the context node of the arguments after it alone
	flatMovers := []string{"*[1]", "a[@a]", "*[. = 'ab']", "/*", "/*/a", "*[last()]", "*[a]/a", "a[1]/@a"}
	for i, mv := range flatMovers {
		st := []string{"a", ".", "@a", "*"}[i%4]
		st2 := []string{"a", ".", "@a", "*"}[(i+1)%4]
		add("concat("+mv+", "+st+")", slen)
		add("concat("+mv+", '-', "+st2+")", slen)
		add(two[i%len(two)]+"("+mv+", "+st+")", slen)
		add("string-join("+st2+", "+mv+")", slen)
		add("translate("+mv+", "+st+", 'x')", slen)
		add("concat(string-length("+mv+"), '|', string-length("+st+"))", slen)
	}
	// calls evaluated once per candidate, with arguments that carry iteration state
	for _, t := range []string{"//*[substring-after((//*)[2], 'a') = 'b']", "//*[contains((//*)[2], 'a')]", "//*[string-length((//*/*)[1]) = 2]", "count(//*[starts-with((//*)[2], 'a')])",
		"//*[substring-before((//*)[2], 'b') = 'a']", "//*[concat((//*)[2], 'x') = 'abx']", "//*[normalize-space((//*)[2]) = 'a']", "//*[translate((//*)[2], 'a', 'b') = 'bb']",
		"//*[lower-case((//*)[2]) = 'a1']", "//*[string((//*)[2]) = 'ab']", "//*[substring((//*)[2], 2) = 'b']", "//*[ends-with((//*/*)[1], 'b')]", "//*[string-join((//*)[2], '-') = 'ab']"} {
		items = append(items, item{t, slen})
	}
	// seeded nesting (depth 2-3) with short strings
	un := []string{"normalize-space", "lower-case", "string"}
	for k := 0; k < nSeed; k++ {
		inner := pick(r, []string{"'#S1'", "a", "@a", "concat('#S1', a)", "substring('#S1', 9001)", "translate('#S1', 'a', 'b')", "substring-after('#S1', '#S2')"})
		var t string
		switch k % 6 {
		case 0:
			t = pick(r, un) + "(" + inner + ")"
		case 1:
			t = pick(r, two) + "(" + inner + ", '#S3')"
		case 2:
			t = "string-length(" + pick(r, un) + "(" + inner + "))"
		case 3:
			t = "concat(" + inner + ", " + pick(r, un) + "('#S3'))"
		case 4:
			t = "substring(" + inner + ", 9003, 9004)"
		case 5:
			t = "translate(" + pick(r, un) + "(" + inner + "), '#S3', 'x')"
		}
		add(t, slen)
	}
	var insts []*vm.Instance
	for _, it := range items {
		insts = append(insts, c09Inst(it.t, cfg, it.l))
	}
	can := func(text, wrong string) *vm.Instance {
		in := c09Inst(text, cfg, slen)
		w := valueCanary(text, wrong, cfg)
		in.Extra = w.Extra
		in.ID = w.ID
		return in
	}
	return &Family{
		Instances: withValueReuse(dedupInst(insts), 2),
		Canaries: []*vm.Instance{
			can("starts-with('#S1', '#S2')", "ends-with('#S1', '#S2')"),
			can("substring-before('#S1', '#S2')", "substring-after('#S1', '#S2')"),
			can("normalize-space('#S1')", "string('#S1')"),
			can("substring('#S1', 9001)", "substring('#S1', 9001, 1)"),
		},
		Bounds: map[string]interface{}{
			"document_slots_N_including_root": cfg.N, "attributes_per_element_A": cfg.A, "value_pool": cfg.Pool,
			"string_lengths": fmt.Sprintf("every length 0..%d (0..%d where several strings interact)", slenBig+1, slen), "numeric_arguments": "one numeric argument: any finite double (symbolic); start and length together: substring start / length: every quarter step k/4 in [-2.5, 6.5] (pairs: [-1.5, 4.5]), case split with one path per value while string bytes stay symbolic, plus NaN and infinities as literals",
			"nesting": "depth 1 exhaustive over the listed functions, depth 2-3 seeded",
		},
		Rule: "instance = one string-function expression over symbolic strings / doubles / node-set arguments; case = explored symbolic path; non-trivial = Evaluate returned without panic",
		Outside: []string{"non-ASCII strings", "control characters that are illegal in XML", "strings longer than the bounds", "regular-expression functions (C16)"},
		PerInst: 8 * time.Minute,
	}
}
