package checks

import (
	"encoding/json"
	"fmt"
	"os"
	"os/exec"
	"strings"

	"gosym/vm"
)

// Replay re-runs a recorded violation against the natively compiled package
// (current /repo working tree + harness overlay) and prints what the real code does.
// Exit 1: the violation reproduces; 0: it does not; 2: the replay itself failed.
func Replay(path string) int {
	data, err := os.ReadFile(path)
	if err != nil {
		fmt.Println(err)
		return 2
	}
	var rf ReplayFile
	if err := json.Unmarshal(data, &rf); err != nil {
		fmt.Println(err)
		return 2
	}
	prog := &vm.Program{RepoDir: RepoDir}
	if strings.HasPrefix(rf.Label, "terminates") {
		ReplayTimeout = "20s"
	}
	res, log, err := NativeReplay(prog, []ReplayCase{rf.Case}, rf.Race)
	fmt.Printf("property=%s\nkey=%s\nobligation=%s\ndetail=%s\nharness=%s params=%v\n", rf.Property, rf.Key, rf.Label, rf.Info, rf.Case.Harness, rf.Case.Params)
	fmt.Printf("inputs=%v\n", rf.Case.Inputs)
	fmt.Printf("executor predicted: %v\n", rf.Predicted)
	if err != nil {
		if strings.Contains(log, "test timed out") || strings.Contains(log, "stack overflow") || strings.Contains(log, "goroutine stack exceeds") {
			fmt.Println("native run: did not complete (timeout / stack exhaustion): REPRODUCED")
			return 1
		}
		fmt.Println("native replay failed:", err)
		return 2
	}
	if len(res) == 0 {
		fmt.Println("native replay returned nothing")
		return 2
	}
	n := res[0]
	fmt.Printf("native run gave:    %v\nfailed asserts: %v escaped panic: %q\n", n.Observations, n.Failed, n.Escaped)
	raced := strings.Contains(log, "DATA RACE")
	if raced {
		fmt.Println("race detector: DATA RACE reported")
	}
	same := sameObs(n.Observations, rf.Predicted)
	monitor := strings.HasPrefix(rf.Label, "non-interference:") || strings.HasPrefix(rf.Label, "bounded-recursion:") || strings.HasPrefix(rf.Label, "frame:")
	switch {
	case monitor && (raced || len(n.Failed) > 0 || n.Escaped != ""):
		fmt.Println("REPRODUCED")
		return 1
	case !monitor && same:
		fmt.Println("REPRODUCED (the real code behaves as predicted, which contradicts the reference / obligation)")
		return 1
	}
	fmt.Println("NOT REPRODUCED on the current tree")
	return 0
}

// SelfTest validates the machinery itself: (1) the Go models of std functions
// against the std library (native test), (2) the executor against the repository's
// own expectations: a set of expressions from the repo's tests is evaluated on a
// fixed document both natively and by the executor and must give identical observations.
func SelfTest() int {
	prog, err := vm.Load(RepoDir, HarnessDir, false)
	if err != nil {
		fmt.Println("load:", err)
		return 2
	}
	// (1) models vs std
	ovArgs, cleanup, err := overlayArgs()
	if err != nil {
		fmt.Println(err)
		return 2
	}
	defer cleanup()
	cmd := exec.Command("go", append([]string{"test", "-tags", "verif"}, append(ovArgs, "-vet=off", "-count=1", "-run", "^TestVerifModels$", ".")...)...)
	cmd.Dir = RepoDir
	cmd.Env = append(os.Environ(), "GOFLAGS=-mod=mod", "GOPROXY=off", "GOSUMDB=off", "GOTOOLCHAIN=local")
	out, err := cmd.CombinedOutput()
	if err != nil {
		fmt.Printf("selftest: models disagree with std:\n%s\n", out)
		return 1
	}
	fmt.Println("selftest: Go models of strings.* agree with std (TestVerifModels)")
	// (2) executor vs native on concrete documents
	r := &Runner{Prog: prog, Workers: 8, Solver: solverChoice(), QueryMs: 8000, Tier: "quick", MaxPaths: 100}
	var insts []*vm.Instance
	for i, ex := range selfTestExprs {
		insts = append(insts, &vm.Instance{ID: fmt.Sprintf("selftest-%d %s", i, ex), Harness: "H_selftest", Params: map[string]string{"expr": ex}})
	}
	results := r.RunAll(insts, 0)
	var cases []ReplayCase
	pred := map[string][]vm.Observation{}
	bad := 0
	for i, res := range results {
		if len(res.Samples) == 0 || len(res.Stats.Incomplete) > 0 {
			fmt.Printf("selftest: executor did not complete %q: %v\n", insts[i].ID, res.Stats.Incomplete)
			bad++
			continue
		}
		id := fmt.Sprintf("s%d", i)
		cases = append(cases, ReplayCase{ID: id, Harness: "H_selftest", Params: insts[i].Params, Inputs: map[string]string{}})
		pred[id] = res.Samples[0].Observed
	}
	native, _, err := NativeReplay(prog, cases, false)
	if err != nil {
		fmt.Println("selftest: native run failed:", err)
		return 2
	}
	for _, n := range native {
		if !sameObs(n.Observations, pred[n.ID]) {
			fmt.Printf("selftest: MISMATCH %s: executor %v native %v\n", n.ID, pred[n.ID], n.Observations)
			bad++
		}
	}
	fmt.Printf("selftest: %d expressions evaluated by the executor and natively on the repository's example documents, %d mismatches\n", len(cases), bad)
	if bad > 0 {
		return 1
	}
	return 0
}

func overlayArgs() ([]string, func(), error) {
	tmp, err := os.MkdirTemp("", "gosym-ov-")
	if err != nil {
		return nil, nil, err
	}
	ents, err := os.ReadDir(HarnessDir)
	if err != nil {
		return nil, nil, err
	}
	ov := map[string]map[string]string{"Replace": {}}
	for _, e := range ents {
		if strings.HasSuffix(e.Name(), ".go") {
			ov["Replace"][RepoDir+"/zz_verif_"+e.Name()] = HarnessDir + "/" + e.Name()
		}
	}
	b, _ := json.Marshal(ov)
	p := tmp + "/overlay.json"
	os.WriteFile(p, b, 0o644)
	return []string{"-overlay", p}, func() { os.RemoveAll(tmp) }, nil
}

// expressions taken from the repository's own tests (axes, predicates, functions, operators)
var selfTestExprs = []string{
	"//book", "//book/title", "/bookstore/book[1]/title", "//book[last()]", "//book[position()<3]/price", "//title[@lang]", "//title[@lang='en']",
	"//book[price>35.00]/title", "//book/@category", "/bookstore/book/price[text()]", "//book[price>35]/price", "count(//book)", "sum(//book/price)",
	"//book/ancestor::*", "//title/ancestor-or-self::*", "//book/descendant::*", "//price/following-sibling::*", "//year/preceding-sibling::*", "//year/preceding::title",
	"//title/following::price", "//book/parent::*", "//book/self::book", "//@lang", "//book[1]/author | //book[2]/author", "//book[author='J K. Rowling']/title",
	"string(//book[1]/title)", "concat(//book[1]/title, ' by ', //book[1]/author)", "contains(//book[1]/title, 'Italian')", "starts-with(//book[2]/title, 'Harry')",
	"substring(//book[1]/title, 1, 5)", "substring-before(//book[1]/title, ' ')", "substring-after(//book[1]/title, ' ')", "string-length(//book[1]/title)",
	"normalize-space('  a   b ')", "translate('bar', 'abc', 'ABC')", "lower-case('ABc')", "string-join(//book/title, '|')", "number(//book[1]/price) + 1",
	"floor(2.5)", "ceiling(2.5)", "round(2.5)", "5 mod 2", "7 div 2", "-(1 + 2) * 3", "1 < 2 and 2 < 3", "1 > 2 or 2 > 1", "not(//book[price>100])", "boolean(//book)",
	"//book[count(author)>1]/title", "//book[not(@category='web')]/title", "(//book)[2]/title", "reverse(//book/title)", "//book[year=2005][1]/title",
	"name(//book[1])", "local-name(//book/@category)", "//book[contains(title,'XML')]/price", "matches(//book[1]/title, '^Every')", "replace(//book[1]/year, '0', 'o')",
	"//*[self::title or self::price][1]", "//book/*[2]", "//book[position()=last()]/title", "/bookstore/*/title/@lang", "//book[title/@lang='en' and price<40]/title",
}
