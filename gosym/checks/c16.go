package checks

import (
	"time"

	"gosym/vm"
)

func init() {
	register(&Check{
		ID: "C16",
		Explain: "(a) cache: one inductive step of the real loadingCache.get from an arbitrary state satisfying the invariant I (cap>0 => |m|<=cap; " +
			"every entry is load(key)), with symbolic capacity, symbolic map contents (0-3 entries with symbolic keys), a symbolic load failure, " +
			"and arbitrary interference between its read section and its write section (the state is replaced by another arbitrary I-state under " +
			"the lock, as other goroutines may do). Post: result = load(key) or (nil, err) without remembering the failure; I holds again; m and " +
			"reset are read and written only under the lock (lockset monitor). One step from every I-state covers every history, capacity, thread " +
			"count and schedule. (b) wiring: matches(s,p) = Match(getRegexp(p), s) and replace(s,p,r) = ReplaceAll(getRegexp(p), s, norm(r)) with the " +
			"regexp operations uninterpreted (same operands, same result) and norm the reference $n -> ${n} rewriting; a constant pattern is " +
			"rejected by Compile iff its (uninterpreted) compilation fails.",
		Technique: "concolic symbolic execution of go/ssa: inductive invariant step with rely/guarantee interference and lockset monitor; uninterpreted regexp operations; SMT-decided path exploration",
		Assume: []string{
			"the regexp engine itself is trusted std code (uninterpreted: equal operands give equal results)",
			"soundness of the rely/guarantee reduction (critical sections start from any I-state) is argued in DESIGN.md, not machine-checked",
			"cache keys are strings; map states of up to 3 entries stand for arbitrary sizes (capacity is symbolic and unbounded)",
		},
		Build: buildC16,
	})
}

func buildC16(tier string, seed int64) *Family {
	cfg := docCfg{N: 2, A: 0, Names: "a", Pool: ","}
	var insts []*vm.Instance
	insts = append(insts, &vm.Instance{ID: "cache: inductive step of loadingCache.get", Harness: "H_cache", Params: map[string]string{}})
	rx := func(id, mode, expr string, extra map[string]string) {
		p := cfg.params()
		p["mode"] = mode
		p["expr"] = expr
		p["slen"] = "2"
		p["rlen"] = "3"
		if tier == "thorough" {
			p["rlen"] = "4"
		}
		p["hole.S1"] = "2:xmlascii"
		p["hole.S2"] = "2:xmlascii"
		p["hole.S3"] = p["rlen"] + ":set:$012a"
		for k, v := range extra {
			p[k] = v
		}
		insts = append(insts, &vm.Instance{ID: id, Harness: "H_regex", Params: p})
	}
	rx("matches(S1, S2) symbolic pattern", "matches", "matches('#S1', '#S2')", nil)
	rx("replace(S1, S2, S3) symbolic pattern", "replace", "replace('#S1', '#S2', '#S3')", nil)
	groups := map[string]string{
		"0": "a", "1": "(a)", "2": "(a)(b)", "3": "(a)(b)(c)", "10": "(a)(b)(c)(d)(e)(f)(g)(h)(i)(j)", "11": "(a)(b)(c)(d)(e)(f)(g)(h)(i)(j)(k)",
	}
	for g, pat := range groups {
		rx("replace with "+g+" groups", "replace", "replace('#S1', '"+pat+"', '#S3')", map[string]string{"pattern": pat})
		rx("matches with pattern "+pat, "matches", "matches('#S1', '"+pat+"')", map[string]string{"pattern": pat})
	}
	rx("matches with a parenthesised pattern that does not compile", "matches", "matches('#S1', ('['))", map[string]string{"pattern": "["})
	rx("replace with a doubly parenthesised pattern that does not compile", "replace", "replace('#S1', (('(')), '#S3')", map[string]string{"pattern": "("})
	rx("matches with a parenthesised pattern", "matches", "matches('#S1', ('(a)'))", map[string]string{"pattern": "(a)"})
	// the lookup the engine uses (getRegexp) over sequences of requests
	insts = append(insts, &vm.Instance{ID: "getRegexp: sequences of three requests over compiling and non-compiling patterns", Harness: "H_getregexp", Params: map[string]string{"calls": "3"}})
	rx("matches with a pattern that does not compile", "matches", "matches('#S1', '(')", map[string]string{"pattern": "("})
	rx("replace with a pattern that does not compile", "replace", "replace('#S1', '[', '#S3')", map[string]string{"pattern": "["})
	// patterns and subjects taken from the document (concrete pool values, so Go's regexp is
	// evaluated natively on both sides): the pattern may differ from candidate to candidate
	rcfg := docCfg{N: 3, A: 1, Names: "a,b", Pool: ",1,x,1x"}
	if tier == "thorough" {
		rcfg = docCfg{N: 3, A: 1, Names: "a,b", Pool: ",1,x,1x,(1),1|x"}
	}
	for _, x := range []string{"//*[matches(., string(@a))]", "//*[matches('1x', string(.))]", "//*[matches(@a, '^1')]", "//*[matches(a, string(@a))]", "//*[not(matches(., 'x'))]"} {
		in := nodesetInst(x, rcfg)
		in.ID = "regexp over nodes: " + in.ID
		insts = append(insts, in)
	}
	for _, x := range []string{"matches(a, string(@a))", "matches('1x1', string(a))", "replace(a, @a, 'y')", "replace('1x1', a, '[$0]')", "replace(a, '(1)', '$1$1')", "matches(*, '1$')",
		// group references with patterns of 0, 1 and 2 groups on concrete subjects
		"replace('abc', 'b', '[$0]')", "replace('aXbX', 'X', '$0$0')", "replace(a, '1', '<$0>')", "replace('abc', '(b)', '[$1$0]')", "replace('abcd', '(b)(c)', '$2$1')", "replace(a, 'x|1', '$0$0')",
		"replace('abc', 'b', 'a$1c')", "replace('abc', '', '-')", "replace('abc', 'b', '[$0x]')", "replace('2024-05', '[0-9]+', '$0_')", "replace('abc', '(b)', '$1x$0y')"} {
		in := valueInst(x, rcfg)
		in.ID = "regexp over nodes: " + in.ID
		insts = append(insts, in)
	}
	// an evaluation that aborts (pattern known only at run time does not compile) before the one checked
	for _, x := range []string{"matches('ab', concat('^a', 'b$'))", "replace('ab', concat('a', ''), concat('x', 'y'))", "matches(a, concat('^', '1'))", "concat('p', replace('aa', 'a', concat('b', '')))"} {
		// (the run-time pattern is built without concat()/normalize-space(): one pooled builder is in play,
		// so that every legal behaviour of sync.Pool hands it to the next call)
		for _, pre := range []string{"concat('zz', replace('x', translate('[', 'q', 'q'), 'y'))", "concat('zz', 'y', matches('x', substring('(((', 2)))", "concat('q', matches('x', lower-case('[')), 'r')"} {
			in := valueInst(x, rcfg)
			in.ID = "after an aborted evaluation: " + pre + " ; " + in.ID
			in.Params["prelude"] = pre
			insts = append(insts, in)
		}
	}
	can := &vm.Instance{ID: "canary cache with a loader returning a foreign value", Harness: "H_cache", Params: map[string]string{"canary": "1"}}
	return &Family{
		Instances: insts,
		Canaries:  []*vm.Instance{can},
		Bounds: map[string]interface{}{
			"cache_capacity": "symbolic, 0..2^30", "cache_entries_in_pre_state": "0..3 symbolic keys (twice: before the read section and after interference)",
			"subject_string": "0-2 symbolic bytes", "pattern": "0-2 symbolic bytes or concrete with 0,1,2,3,10,11 groups", "replacement": "0-3 (thorough 4) bytes over {$,0,1,2,a}, '$' followed by a digit",
		},
		Rule: "instance = the cache step harness, and one wiring instance per function x pattern kind; case = explored symbolic path; non-trivial = the harness reached its post-conditions",
		Outside: []string{"the regexp engine", "\\$ escapes in replacement strings", "a client assigning RegexpCache while evaluations run", "liveness (a re-entrant load under an extended read lock would deadlock)"},
		PerInst: 5 * time.Minute,
	}
}
