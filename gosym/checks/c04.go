package checks

import (
	"strings"
	"time"

	"gosym/vm"
)

// purityExprs instantiates every query type and function constructor.
var purityExprs = []string{
	"a", "*", "@a", "@*", ".", "..", "//a", "//*", "a/a", "a//a", "//a/..", "/", "/a",
	"ancestor::*", "ancestor-or-self::a", "descendant::a", "descendant-or-self::*", "following::a", "following-sibling::*",
	"preceding::*", "preceding-sibling::a", "parent::*", "self::a", "attribute::*", "descendant::a/descendant::a", "//a//a",
	"*[a]", "*[@a]", "*[. = '1']", "//*[ancestor::a]", "//*[following::a]", "//*[preceding::a]", "*[not(a)]", "*[a and @a]", "*[a or following::a]",
	"*[1]", "*[last()]", "*[position() > 1]", "//a[1]", "//*[last()]", "(//*)[2]", "(a)[1]", "a[1]/a", "*[a][1]", "*[last() - 1]", "//a[position() = last()]",
	"a | *", "//a | //@a", "*/(a, b)", "(a | *)/a",
	"count(//a)", "count(*)", "sum(*)", "number(a)", "string(a)", "boolean(a)", "not(a)", "true()", "name()", "local-name(a)", "namespace-uri()",
	"concat(a, 'x')", "contains(a, '1')", "starts-with(a, '1')", "ends-with(a, '1')", "substring('12345', 2)", "substring-before(a, '1')", "substring-after('a1b', a)",
	"string-length(a)", "normalize-space(a)", "translate(a, '1', 'x')", "lower-case(a)", "string-join(*, ',')", "string-join(//a, a)", "reverse(*)", "reverse(//a)",
	"floor(1.5)", "ceiling(a)", "round(1.5)", "matches(a, '1')", "replace(a, '1', 'x')",
	"a = 1", "a = '1'", "a = *", "a != @a", "1 + count(*)", "count(a) mod 2", "a < 2", "-count(*)", "a and *", "a or following::a", "boolean(a = 1 or * = 1)",
	"ancestor::a = ''", "following::a = following::*", "*[following::a = '1']", "count(ancestor::*) + count(preceding::*)", "//*[count(a) = 1]", "string-join(ancestor::*, '-')",
	"(//a)[last()]", "//*[a][last()]", "*[position() = last()]/a", "a[last()]/@a",
	// function arguments that carry iteration state of their own (parenthesised positional paths,
	// multi-step paths with positional predicates) and patterns taken from the document
	"string((//*)[2])", "number((//*)[1])", "boolean((*)[2])", "count((//*)[2])", "sum((//*)[1])", "string-length((//*)[2])", "normalize-space((*)[1])",
	"concat((//*)[2], 'x')", "contains((//*)[2], '1')", "starts-with((*)[1], '1')", "ends-with((//*)[2], '1')", "substring((//*)[2], 1)",
	"substring-before((//*)[2], 'x')", "substring-after((//*/*)[1], '1')", "translate((//*)[2], '1', 'x')", "lower-case((//*)[2])", "name((//*)[2])",
	"local-name((*)[1])", "namespace-uri((//*)[2])", "not((//*)[2])", "floor((//*)[1])", "ceiling((*)[1])", "round((//*)[2])", "string-join((//*)[2], ',')",
	"reverse((//*)[2])", "matches((//*)[2], '1')", "replace((//*)[2], '1', 'x')", "substring-before(//*/*[position() < 3], '1')", "substring-after(//*/*[position() < 3], '')", "substring-after(//*/*[position() < 3], 'x')", "string(//*/*[position() < 3])",
	"name(*)", "local-name(//a)", "namespace-uri(*)", "//*[name(..) = 'a']", "//*[local-name(*) = 'a']", "//*[namespace-uri(..) = '']",
	"matches('1', string(a))", "matches(., string(a))", "replace('1x1', a, 'y')", "//*[matches('1', string(.))]", "//*[matches(., '1')]/a", "//*[a][last()]/a", "//*[@a][last()]",
	"//*[count(a) = 1][last()]", "(//*)[last()]/a", "*[last()][a]", "//a[last()][. = '1']", "*[@a][last()]", "a[. = '1'][last()]",
	// node-set functions and groups as arguments of other functions (the argument-cloning
	// shortcut in functionArgs depends on the argument's query type)
	"count(reverse(//a))", "string-join(reverse(*), ',')", "boolean(reverse(a))", "string(reverse(//*))", "sum(reverse(*))", "not(reverse(//a))", "count((reverse(*)))",
	"concat(reverse(*), 'x')", "name(reverse(//*))", "string-length(reverse(a))", "count((//a))", "string((a | *))", "count(reverse(//*)[1])", "reverse(reverse(*))",
	"not(* = 1)", "not(//*/*[position() < 3] = '1')", "boolean((//*)[2] = '1')", "string(a = (//*)[2])", "not(count(*) + count(//a))", "boolean(a and (*)[2])",
	// arguments that differ from one context node to the next (scratch state kept between calls shows)
	"translate(., a, @a)", "translate(a, *, 'x')", "translate('1x', a, @a)", "//*[translate(., a, 'x') = 'x']", "concat(normalize-space(a), concat(*, 'x'))", "string-join(*, string(a))",
	"normalize-space(concat(a, ' ', *))", "//*[concat(., '!') = '1!' or normalize-space() = '1']", "replace(., string(a), string(@a))", "substring(., count(*) + 1)",
	"floor(a * number(*))", "count(*) + floor(a * 2)", "string(a + 1)", "floor(a + *)", "//*[floor(a * number(@a)) = 1]", "ceiling(a div *)", "number(a - 1)",
	"string-length(string(a + 1))", "boolean(a * 0)", "not(a + 1)", "concat(a + 1, 'x')", "round(a * *)", "sum(*) + floor(a)", "//*[ceiling(. + 1) = 2]",
}

// expressions whose history is also played on a second, independent document (state that
// depends on the document, such as memoised counts, only shows across documents)
var twoDocExprs = map[string]bool{
	"//a": true, "*[last()]": true, "//*[last()]": true, "(//*)[2]": true, "(//a)[last()]": true, "//*[a][last()]": true, "*[@a][last()]": true,
	"count(//a)": true, "a[last()]/@a": true, "//a[position() = last()]": true, "string((//*)[2])": true, "//*[count(a) = 1][last()]": true, "(//*)[last()]/a": true,
	"a[. = '1'][last()]": true, "reverse(//a)": true, "string-join(//a, a)": true, "translate(., a, @a)": true, "translate('1x', a, @a)": true, "replace(., string(a), string(@a))": true,
}

func init() {
	register(&Check{
		ID: "C04",
		Explain: "Histories are unbounded, so the claim is reduced to an inductive frame condition checked on the real code: from the state " +
			"left by Compile, a Select or Evaluate call (abandoned after a symbolic number of results, at a symbolic context of a symbolic " +
			"document) performs no value-changing store to any cell reachable from the compiled expression or from package globals. If " +
			"that holds for every call, the shared state after any history is the post-Compile state. In addition the behavioural " +
			"statement is checked directly: after a symbolic history of 1-2 such calls the expression observes exactly what a freshly " +
			"compiled one observes (Select sequence and Evaluate value), on every path.",
		Technique: "concolic symbolic execution of go/ssa with a frame (shared-store) monitor; inductive one-step frame condition + two-run differential per path, paths enumerated by SMT (z3)",
		Assume: []string{
			"soundness of the reduction frame condition => purity over histories of any length (argued in DESIGN.md §5 C04, not machine-checked)",
			"shared state = everything reachable at freeze time from the *Expr or from package variables of package xpath, except RegexpCache (C16) and builderPool",
			"navigator contract of harness/nav.go (navigators are themselves pure)",
		},
		Build: buildC04,
	})
}

func pureInst(harness, text string, cfg docCfg) *vm.Instance {
	p := cfg.params()
	p["expr"] = text
	return &vm.Instance{ID: text + " @" + cfg.tag(), Harness: harness, Params: p}
}

func buildC04(tier string, seed int64) *Family {
	cfg := docCfg{N: 3, A: 1, Names: "a,b", Pool: ",1"}
	steps := "1"
	if tier == "thorough" {
		cfg = docCfg{N: 4, A: 1, Names: "a,b", Pool: ",1"}
		steps = "2"
	}
	var insts []*vm.Instance
	for _, x := range purityExprs {
		c := cfg
		if !strings.Contains(x, "@") {
			c.A = 0
		}
		if strings.Contains(x, "position() <") || strings.Contains(x, "//*/*") {
			c.N = 4
		}
		in := pureInst("H_pure", x, c)
		in.Params["steps"] = steps
		insts = append(insts, in)
		// the same with the history played on a second, independent document
		if twoDocExprs[x] {
			in2 := pureInst("H_pure", x, c)
			in2.Params["steps"] = steps
			in2.Params["twodocs"] = "1"
			in2.ID += " history-on-other-document"
			insts = append(insts, in2)
		}
	}
	var can []*vm.Instance
	for _, x := range []string{"//a", "*[a]", "a = 1"} {
		c := pureInst("H_pure", x, cfg)
		c.ID = "canary " + c.ID
		c.Params["canary"] = "1"
		c.Params["steps"] = "1"
		can = append(can, c)
	}
	return &Family{
		Instances: dedupInst(insts),
		Canaries:  can,
		Bounds: map[string]interface{}{
			"document_slots_N_including_root": cfg.N, "attributes_per_element_A": cfg.A, "history_calls": "quick: 1, thorough: 1-2 (symbolic op, context and consumed prefix 0..2); 3 when the frame condition fails",
			"frame_condition": "one call, no bound on history length",
		},
		Rule: "instance = one expression of a family instantiating every query type and function constructor; case = explored symbolic path " +
			"(document, history contexts, consumed prefixes, final context); non-trivial = the observation after the history is non-empty",
		Outside: []string{"impure navigators", "histories that replace RegexpCache", "documents beyond the bounds for the behavioural differential"},
		PerInst: 10 * time.Minute,
	}
}
