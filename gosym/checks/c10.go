package checks

import (
	"fmt"
	"math/rand"
	"strconv"
	"strings"
	"time"

	"gosym/vm"
)

func init() {
	register(&Check{
		ID: "C10",
		Explain: "The real parser runs symbolically on operator chains whose operands are symbolic tokens (names, string literals) or numbers and " +
			"whose gaps are symbolic whitespace runs (0-2 bytes, at least one where two name-like tokens would otherwise merge). On every path the " +
			"harness compares the parse tree with the reference grouping computed by a precedence-climbing parser in the checker (or < and < " +
			"equality < relational < additive < multiplicative < unary minus < union, left-associative); because the gaps are symbolic, 'inserting " +
			"or removing optional whitespace never changes the meaning' is the same query. Abbreviations: the abbreviated path and its expansion " +
			"must parse to the same tree (modulo the spelling of the root slash).",
		Technique: "concolic symbolic execution of go/ssa (scanner + parser on symbolic bytes) with SMT-decided path exploration; tree equality asserted as one term per path",
		Assume: []string{
			"tokens: names 1-3 bytes, string literals 0-2 bytes, whitespace 0-2 bytes; numbers are concrete digits",
			"the engine encodes -x as x * -1; the comparator accepts exactly that pattern",
		},
		Build: buildC10,
	})
}

var precGapPieces = 2

// precMinusRuns[i] = number of minus signs written before operand i (when set)
var precMinusRuns []int
var precThorough = false
var precQ = false
var precWide = false // 3-operator chains with 2-byte tokens (seeded sample of the thorough tier only)

var c10Prec = map[string]int{"or": 1, "and": 2, "=": 3, "!=": 3, "<": 4, "<=": 4, ">": 4, ">=": 4, "+": 5, "-": 5, "*": 6, "div": 6, "mod": 6, "|": 8}

type c10Tok struct {
	op  string // operator, or "" for operand
	idx int
	neg bool
}

// refShape: precedence climbing over operand/operator tokens (the reference grouping).
func refShape(opnds int, ops []string, neg []bool) string {
	pos := 0
	var parseExpr func(minPrec int) string
	operand := func() string {
		// unary minus binds tighter than multiplicative and looser than union;
		// a run of minus signs negates once if its length is odd (-(-x) = x)
		if neg[pos] {
			neg[pos] = false
			idx := pos
			inner := parseExpr(8)
			if precMinusRuns != nil && precMinusRuns[idx]%2 == 0 {
				return inner
			}
			return "(neg " + inner + ")"
		}
		s := strconv.Itoa(pos)
		return s
	}
	parseExpr = func(minPrec int) string {
		left := operand()
		for pos < len(ops) && c10Prec[ops[pos]] >= minPrec {
			op := ops[pos]
			pos++
			right := parseExpr(c10Prec[op] + 1)
			left = "(" + op + " " + left + " " + right + ")"
		}
		return left
	}
	return parseExpr(1)
}

func precInst(ops []string, neg []bool, kinds []string) *vm.Instance {
	// template text with symbolic gaps
	var tpl []string
	w := 0
	// gaps reuse a small set of whitespace pieces (the same piece denotes the same bytes),
	// so that the number of length combinations stays bounded
	gap := func(mandatory bool) string {
		w++
		if mandatory {
			return fmt.Sprintf("w%d", 1+w%precGapPieces)
		}
		return fmt.Sprintf("W%d", 1+w%precGapPieces)
	}
	wordOp := func(op string) bool { return op == "or" || op == "and" || op == "div" || op == "mod" }
	for i, k := range kinds {
		if neg[i] {
			runs := 1
			if precMinusRuns != nil {
				runs = precMinusRuns[i]
			}
			for k := 0; k < runs; k++ {
				tpl = append(tpl, "-", gap(false))
			}
		}
		if k[0] == 'Q' {
			// prefixed name p:NAME (no namespace map: the prefix is kept literally)
			tpl = append(tpl, "p", ":", "N"+k[1:])
		} else {
			tpl = append(tpl, k)
		}
		if i < len(ops) {
			op := ops[i]
			nameLeft := k[0] == 'N' || k[0] == 'Q' || (k[0] >= '0' && k[0] <= '9')
			// whitespace is required where the operator would merge with a name-like token
			tpl = append(tpl, gap(wordOp(op) || (op == "-" && nameLeft)), op)
			nextNameLike := kinds[i+1][0] == 'N' || kinds[i+1][0] == 'Q' || (kinds[i+1][0] >= '0' && kinds[i+1][0] <= '9')
			// after a word operator a name character must not follow directly ('-' and digits are name characters)
			tpl = append(tpl, gap(wordOp(op) && (nextNameLike || neg[i+1])))
		}
	}
	negCopy := append([]bool{}, neg...)
	shape := refShape(len(kinds), ops, negCopy)
	t := strings.Join(tpl, " ")
	tokmax := "3"
	switch {
	case len(ops) >= 3:
		tokmax = "1"
	case len(ops) == 2 || !precThorough:
		tokmax = "2"
	}
	if precThorough && len(ops) == 3 && precWide {
		tokmax = "2"
	}
	return &vm.Instance{ID: "chain: " + t, Harness: "H_prec",
		Params: map[string]string{"mode": "shape", "tpl": t, "opnds": strings.Join(kinds, ","), "shape": shape, "tokmax": tokmax}}
}

func buildC10(tier string, seed int64) *Family {
	r := rand.New(rand.NewSource(seed))
	allOps := []string{"or", "and", "=", "!=", "<", "<=", ">", ">=", "+", "-", "*", "div", "mod", "|"}
	nSeed := 150
	precGapPieces = 2
	precThorough = tier == "thorough"
	precWide = false
	if tier == "thorough" {
		nSeed = 900
		precGapPieces = 3
	}
	var insts []*vm.Instance
	mk := func(ops []string, neg []bool) {
		kinds := make([]string, len(ops)+1)
		for i := range kinds {
			kinds[i] = fmt.Sprintf("N%d", i+1)
		}
		// vary operand kinds where the grammar allows it (not next to '|')
		for i := range kinds {
			nextToUnion := (i > 0 && ops[i-1] == "|") || (i < len(ops) && ops[i] == "|")
			if nextToUnion {
				if i > 0 && ops[i-1] == "|" {
					neg[i] = false
				}
				continue
			}
			switch (i + len(ops)) % 3 {
			case 1:
				kinds[i] = fmt.Sprintf("S%d", i+1)
			case 2:
				kinds[i] = strconv.Itoa(i + 2)
			}
		}
		insts = append(insts, precInst(ops, neg, kinds))
		if precQ {
			// the same chain with prefixed names in place of some of the plain names
			qk := append([]string{}, kinds...)
			any := false
			for i := range qk {
				if qk[i][0] == 'N' && (i+len(ops))%2 == 0 {
					qk[i] = "Q" + qk[i][1:]
					any = true
				}
			}
			if !any && qk[0][0] == 'N' {
				qk[0] = "Q" + qk[0][1:]
				any = true
			}
			if any {
				insts = append(insts, precInst(ops, append([]bool{}, neg...), qk))
			}
		}
	}
	// every ordered pair of operators, plain and with a unary minus on each operand
	precQ = true
	for _, a := range allOps {
		for _, b := range allOps {
			mk([]string{a, b}, []bool{false, false, false})
		}
	}
	for _, a := range allOps {
		mk([]string{a}, []bool{false, false})
	}
	precQ = tier == "thorough"
	for k, a := range allOps {
		mk([]string{a}, []bool{true, false})
		mk([]string{a}, []bool{false, true})
		mk([]string{a, allOps[(k*5+3)%len(allOps)]}, []bool{false, true, false})
		mk([]string{a, allOps[(k*3+1)%len(allOps)]}, []bool{true, false, true})
	}
	// runs of two and three minus signs
	for k, a := range allOps {
		for _, runs := range [][]int{{2, 0}, {0, 2}, {3, 0}, {0, 3}, {2, 2}, {1, 2}} {
			if a == "|" && runs[1] > 0 {
				continue
			}
			precMinusRuns = runs
			mk([]string{a}, []bool{runs[0] > 0, runs[1] > 0})
			precMinusRuns = nil
		}
		_ = k
	}
	// chains of length 3 (all in thorough, seeded in quick) and seeded chains of 4-5
	if tier == "thorough" {
		for _, a := range allOps {
			for _, b := range allOps {
				for _, c := range allOps {
					mk([]string{a, b, c}, []bool{false, false, false, false})
				}
			}
		}
	}
	precWide = true
	for k := 0; k < nSeed; k++ {
		n := 3 + k%3
		ops := make([]string, n)
		neg := make([]bool, n+1)
		for i := range ops {
			ops[i] = pick(r, allOps)
		}
		for i := range neg {
			neg[i] = r.Intn(5) == 0
		}
		mk(ops, neg)
	}
	// abbreviations
	ab := [][2]string{
		{"N1", "child :: N1"}, {"@ N1", "attribute :: N1"}, {".", "self :: node ( )"}, {"..", "parent :: node ( )"},
		{"N1 // N2", "N1 / descendant-or-self :: node ( ) / N2"}, {"// N1", "/ descendant-or-self :: node ( ) / N1"},
		{"N1 / N2", "child :: N1 / child :: N2"}, {"N1 / @ N2", "child :: N1 / attribute :: N2"}, {". / N1", "self :: node ( ) / child :: N1"},
		{".. / N1", "parent :: node ( ) / child :: N1"}, {"N1 / ..", "child :: N1 / parent :: node ( )"}, {"N1 / .", "child :: N1 / self :: node ( )"},
		{". // N1", "self :: node ( ) / descendant-or-self :: node ( ) / child :: N1"}, {"N1 // @ N2", "child :: N1 / descendant-or-self :: node ( ) / attribute :: N2"},
		{"/ N1 / N2 / N3", "/ child :: N1 / child :: N2 / child :: N3"}, {"// N1 // N2", "/ descendant-or-self :: node ( ) / child :: N1 / descendant-or-self :: node ( ) / child :: N2"},
		{"N1 [ @ N2 ]", "child :: N1 [ attribute :: N2 ]"}, {"N1 [ . = S1 ]", "child :: N1 [ self :: node ( ) = S1 ]"}, {"N1 [ .. / N2 ]", "child :: N1 [ parent :: node ( ) / child :: N2 ]"},
		{"* / N1", "child :: * / child :: N1"}, {"@ *", "attribute :: *"}, {"N1 / text ( )", "child :: N1 / child :: text ( )"}, {"N1 W1 / W2 N2", "N1 / N2"},
		{"count ( // N1 )", "count ( / descendant-or-self :: node ( ) / child :: N1 )"}, {"N1 | @ N2", "child :: N1 | attribute :: N2"},
		{".. // N1 / @ N2", "parent :: node ( ) / descendant-or-self :: node ( ) / child :: N1 / attribute :: N2"},
		// "//" after a filter expression (parenthesised expression, function call) and after predicates
		{"( N1 ) // N2", "( N1 ) / descendant-or-self :: node ( ) / N2"}, {"( N1 | N2 ) // N3", "( N1 | N2 ) / descendant-or-self :: node ( ) / N3"},
		{"( / N1 ) // N2", "( / N1 ) / descendant-or-self :: node ( ) / child :: N2"}, {"( N1 ) [ 2 ] // N2", "( N1 ) [ 2 ] / descendant-or-self :: node ( ) / N2"},
		{"reverse ( N1 ) // N2", "reverse ( N1 ) / descendant-or-self :: node ( ) / N2"}, {"N1 [ N2 ] // N3", "child :: N1 [ child :: N2 ] / descendant-or-self :: node ( ) / child :: N3"},
		{"p : N1", "child :: p : N1"}, {"@ p : N1", "attribute :: p : N1"}, {"p : N1 / ..", "child :: p : N1 / parent :: node ( )"}, {"p : N1 / N2", "child :: p : N1 / child :: N2"},
		{"p : N1 // N2", "child :: p : N1 / descendant-or-self :: node ( ) / child :: N2"}, {"p : N1 / .", "child :: p : N1 / self :: node ( )"}, {"p : N1 [ N2 ]", "child :: p : N1 [ child :: N2 ]"},
		{"p : N1 / @ N2", "child :: p : N1 / attribute :: N2"}, {"p : N1 | N2", "child :: p : N1 | child :: N2"}, {"p : N1 / text ( )", "child :: p : N1 / child :: text ( )"}, {"p : * / N1", "child :: p : * / child :: N1"},
		{"( N1 ) / N2", "( N1 ) / child :: N2"}, {"( N1 ) // @ N2", "( N1 ) / descendant-or-self :: node ( ) / attribute :: N2"}, {"( N1 ) // .", "( N1 ) / descendant-or-self :: node ( ) / self :: node ( )"},
	}
	for _, p := range ab {
		insts = append(insts, &vm.Instance{ID: "abbrev: " + p[0] + "  ==  " + p[1], Harness: "H_prec",
			Params: map[string]string{"mode": "abbrev", "tpl": p[0], "tpl2": p[1]}})
		// the same with symbolic whitespace between all tokens of the abbreviated form
		var ws []string
		fields := strings.Fields(p[0])
		for i, t := range fields {
			// no whitespace inside a qualified name
			if i > 0 && t != ":" && fields[i-1] != ":" {
				ws = append(ws, fmt.Sprintf("W%d", 1+i%precGapPieces))
			}
			ws = append(ws, t)
		}
		insts = append(insts, &vm.Instance{ID: "abbrev+ws: " + strings.Join(ws, " ") + "  ==  " + p[1], Harness: "H_prec",
			Params: map[string]string{"mode": "abbrev", "tpl": strings.Join(ws, " "), "tpl2": p[1]}})
	}
	// semantic counterpart on a symbolic document: abbreviation and expansion select the same sequence
	dcfg := docCfg{N: 4, A: 1, Names: "a,b", Pool: ","}
	for _, p := range [][2]string{{"a", "child::a"}, {"@a", "attribute::a"}, {".", "self::node()"}, {"..", "parent::node()"}, {"a//b", "a/descendant-or-self::node()/child::b"},
		{"//a", "/descendant-or-self::node()/child::a"}, {".//a", "self::node()/descendant-or-self::node()/child::a"}, {"../@a", "parent::node()/attribute::a"},
		{"a/b/..", "child::a/child::b/parent::node()"}, {"//a/@a", "/descendant-or-self::node()/child::a/attribute::a"}, {"*[@a]", "child::*[attribute::a]"},
		{"a | @a", "child::a|attribute::a"}, {"(a)//b", "(a)/descendant-or-self::node()/child::b"}, {"(/a)//b", "(/a)/descendant-or-self::node()/child::b"},
		{"(a | b)//a", "(a | b)/descendant-or-self::node()/child::a"}, {"reverse(a)//b", "reverse(a)/descendant-or-self::node()/child::b"}, {"a  /  b", "a/b"}, {" a [ 1 ] ", "a[1]"}, {"count( a )", "count(a)"}} {
		in := metaInst(p[0], "equiv", dcfg)
		in.Params["expr2"] = p[1]
		in.ID = "equiv: " + p[0] + " == " + p[1]
		insts = append(insts, in)
	}
	canary := precInst([]string{"+", "*"}, []bool{false, false, false}, []string{"N1", "N2", "N3"})
	canary.ID = "canary wrong grouping (+ before *)"
	canary.Params["shape"] = "(* (+ 0 1) 2)"
	can2 := &vm.Instance{ID: "canary abbrev N1 vs attribute::N1", Harness: "H_prec", Params: map[string]string{"mode": "abbrev", "tpl": "N1", "tpl2": "attribute :: N1"}}
	return &Family{
		Instances: dedupInst(insts),
		Canaries:  []*vm.Instance{canary, can2},
		Bounds: map[string]interface{}{
			"operators": len(allOps), "chains": "all ordered pairs (quick: plus seeded chains of 3-5; thorough: all triples plus seeded 3-5)",
			"whitespace_gaps": "0-2 symbolic bytes each (1-2 where required); gaps share 2 (quick) / 3 (thorough) whitespace pieces per template", "operand_tokens": "symbolic names / string literals, sizes by chain length: 1 operator <=3 bytes (quick: 2), 2 operators <=2, longer chains 1 byte names, empty strings, 0-1 whitespace; numbers concrete",
		},
		Rule: "instance = one operator chain (with unary-minus placements) or one abbreviation pair; case = explored symbolic path over token bytes and whitespace; " +
			"non-trivial = the text reached the parser",
		Outside: []string{"tokens longer than the bounds", "non-ASCII names", "symbolic number tokens", "XPath 2.0 syntax other than the sequence step"},
		PerInst: 3 * time.Minute,
	}
}
