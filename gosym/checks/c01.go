package checks

import (
	"math/rand"
	"time"

	"gosym/oracle"
	"gosym/vm"
)

func init() {
	register(&Check{
		ID: "C01",
		Explain: "Each instance is one predicate-free location path; the real Compile+Select code is executed " +
			"symbolically (go/ssa) over a fully symbolic document (shape, node kinds, names, attributes) and a symbolic " +
			"context node; on every path the solver decides PC ∧ ¬(set(Select) = XPath-1.0 reference node-set).",
		Technique: "concolic symbolic execution of go/ssa + SMT (z3) per-path set-equality obligation against a reference XPath semantics",
		Assume: []string{
			"the navigator contract of harness/nav.go (attributes have no siblings/children; MoveToFirst reports whether it moved; Value is per node)",
			"reference semantics gosym/oracle (XPath 1.0 §2, axes/node tests/abbreviations)",
		},
		Build: buildC01,
	})
}

func buildC01(tier string, seed int64) *Family {
	r := rand.New(rand.NewSource(seed))
	cfg := docCfg{N: 4, A: 1, Names: "a,b", Pool: ","}
	cfg3 := docCfg{N: 4, A: 1, Names: "a,b", Pool: ","}
	perPair := 2
	triples := 40
	if tier == "thorough" {
		cfg = docCfg{N: 5, A: 2, Names: "a,b", Pool: ","}
		cfg3 = docCfg{N: 5, A: 1, Names: "a,b", Pool: ","}
		perPair = 9
		triples = 600
	}
	var insts []*vm.Instance
	add := func(text string, c docCfg) { insts = append(insts, nodesetInst(text, c)) }
	// one step, every axis and test, relative and absolute
	for _, ax := range oracle.Axes {
		for _, t := range nodeTests {
			add(ax+"::"+t, cfg)
			add("/"+ax+"::"+t, cfg)
			add("//"+ax+"::"+t, cfg)
		}
	}
	for _, x := range []string{".", "..", "@a", "@*", "a", "*", "text()", "node()", "comment()", "/", "/a", "/*", "//a", "//*",
		"//node()", "//text()", "//comment()", "//@a", "//@*", ".//a", ".//*", "..//a", "../a", "./a", "a/..", "a/.", "@a/..", "//a/..", "//a/.", "a//a", "a//@a", "*//text()",
		"//a//a", "//a//*", "//*//a", "/a/a", "/*/*", "/*/a/@a", "../@a", "../../a", ".//.", "//.", "//..", "a/@*", "*/@a", "*/*", "a/b", "*/a/*"} {
		add(x, cfg)
	}
	// two steps: every ordered pair of axes
	for _, a1 := range oracle.Axes {
		for _, a2 := range oracle.Axes {
			used := map[string]bool{}
			for k := 0; k < perPair; k++ {
				t1, t2 := pick(r, nodeTests), pick(r, nodeTests)
				if tier == "thorough" {
					t1, t2 = nodeTests[(k/3)%len(nodeTests)], nodeTests[(k*2+k/3)%len(nodeTests)]
				}
				if used[t1+"|"+t2] {
					continue
				}
				used[t1+"|"+t2] = true
				add(a1+"::"+t1+"/"+a2+"::"+t2, cfg)
				if k == 0 {
					add(a1+"::"+t1+"//"+a2+"::"+t2, cfg)
					add("/"+a1+"::"+t1+"/"+a2+"::"+t2, cfg)
				}
				if tier == "thorough" {
					add("//"+a1+"::"+t1+"/"+a2+"::"+t2, cfg3)
					add(a1+"::"+t1+"//"+a2+"::"+t2, cfg3)
				}
			}
		}
	}
	// seeded three-step paths
	seps := []string{"/", "/", "//"}
	for k := 0; k < triples; k++ {
		p := pick(r, []string{"", "", "/", "//"})
		p += pick(r, oracle.Axes) + "::" + pick(r, nodeTests) + pick(r, seps) + pick(r, oracle.Axes) + "::" + pick(r, nodeTests) + pick(r, seps) + pick(r, oracle.Axes) + "::" + pick(r, nodeTests)
		add(p, cfg3)
	}
	// descendant sandwiches: a descendant-type step, a non-descendant step, another
	// descendant-type step. The builder passes "may skip the inside of a match" hints
	// between steps; whether they leak only shows on same-named nesting (5 slots).
	cfg5 := docCfg{N: 5, A: 0, Names: "a,b", Pool: ","}
	if tier == "thorough" {
		cfg5 = docCfg{N: 6, A: 1, Names: "a,b", Pool: ","}
	}
	for _, d1 := range []string{"descendant::a", "descendant-or-self::a", "//a", "/descendant::a", "descendant::*"} {
		for i, mid := range []string{"b", "*", "..", "self::a", "following-sibling::*", "parent::*"} {
			for j, d2 := range []string{"descendant::b", "/b", "descendant-or-self::*", "/*"} {
				if tier != "thorough" && (i+j)%3 != 0 {
					continue
				}
				sep := "/"
				if d2[0] == '/' {
					sep = "/" // d2 "/b" makes "//b"
				}
				add(d1+"/"+mid+sep+d2, cfg5)
			}
		}
	}
	for _, x := range []string{"descendant::a/descendant::*", "descendant::a/descendant-or-self::*", "descendant-or-self::a/descendant::b", "descendant::*/descendant::a", "descendant::a//*",
		"descendant-or-self::a//a", "descendant::a/descendant::a/descendant::*"} {
		add(x, cfg5)
	}
	for _, x := range []string{"//@a/..//b", "//@a/..//*", "//@*/../descendant::a", "descendant::a/@a/..//*", "//a/@a/../descendant::*"} {
		add(x, cfg)
	}
	// elements with two attributes: an attribute context has attribute siblings, which no
	// axis may reach except through the parent
	cfgA2 := docCfg{N: 3, A: 2, Names: "a,b", Pool: ","}
	for _, ax := range oracle.Axes {
		add(ax+"::node()", cfgA2)
		add(ax+"::a", cfgA2)
		add("@*/"+ax+"::*", cfgA2)
	}
	for _, x := range []string{"@*", "@a", "//@*", "//@*/@*", "@*/..", "@*/../@*", "//@a/../@b", "@*/.", "../@*"} {
		add(x, cfgA2)
	}
	// the node identity key used for de-duplication (ancestor steps, unions) is injective on
	// position paths with one- and two-digit sibling indices (C11's identity kernel, element case)
	insts = append(insts, &vm.Instance{ID: "identity kernel: element vs element on position paths with one- and two-digit indices", Harness: "H_identity",
		Params: map[string]string{"abstracthash": "1", "kindx": "0", "kindy": "0"}})
	// prefixed and unprefixed name tests in one path (no namespace map: literal prefixes)
	pcfg := docCfg{N: 4, A: 1, Names: "a,b", Pool: ","}
	for _, x := range []string{"p:a/b", "/p:a/a", "//p:a//b", "p:a/@a", "ancestor::p:a/child::a", "p:a/p:b/a", "@p:a/../a", "//p:b/*", "descendant::p:a/a", "a/p:a/a"} {
		in := nodesetInst(x, pcfg)
		in.ID += " prefixed"
		in.Params["prefixes"] = ",p"
		insts = append(insts, in)
	}
	fam := &Family{
		Instances: withReuse(dedupInst(insts), 1),
		Canaries: []*vm.Instance{
			canaryInst("H_nodeset", "child::a", "descendant::a", cfg),
			canaryInst("H_nodeset", "following-sibling::*", "following::*", cfg),
			canaryInst("H_nodeset", "ancestor::a", "ancestor-or-self::a", cfg),
			canaryInst("H_nodeset", "//a", "//*", cfg),
		},
		Bounds: map[string]interface{}{
			"document_slots_N_including_root": cfg.N, "attributes_per_element_A": cfg.A, "name_classes": 2,
			"three_step_paths_N": cfg3.N, "context": "any existing slot or attribute (symbolic)",
			"steps_per_path": "1-3", "per_query_timeout_ms": map[string]int{"quick": 20000, "thorough": 120000},
		},
		Rule: "instance = one location path (all 12 axes x 5 node tests x {relative,/,//}; all 144 axis pairs; abbreviations; seeded triples); " +
			"case = one explored symbolic path (a class of documents+contexts); non-trivial = the reference node-set is non-empty in the path's model; distinct = distinct path condition",
		Outside: []string{"processing-instruction tests", "namespace axis", "documents with more than N slots or A attributes per element", "prefixed name tests (C14)"},
		PerInst: 10 * time.Minute,
	}
	return fam
}
