package checks

import (
	"math/rand"
	"strconv"
	"time"

	"gosym/oracle"
	"gosym/vm"
)

func init() {
	register(&Check{
		ID: "C11",
		Explain: "Each instance is A | B (or the sequence form P/(a, b)) over path pairs on all axes. The real code runs " +
			"symbolically over a symbolic document (names and values may coincide; elements, attributes, text, comments) and " +
			"context; on every path the solver decides that Select yields exactly the reference union and each node once.",
		Technique: "concolic symbolic execution of go/ssa + SMT (z3) per-path set-equality and no-duplicate obligations against a reference XPath semantics",
		Assume: []string{
			"navigator contract of harness/nav.go",
			"reference semantics gosym/oracle (XPath 1.0 §3.3 union)",
			"FNV-64a is computed concretely on each path's key bytes; true 64-bit collisions between different keys are outside the claim",
		},
		Build: buildC11,
	})
}

func buildC11(tier string, seed int64) *Family {
	r := rand.New(rand.NewSource(seed))
	cfg := docCfg{N: 4, A: 1, Names: "a,b", Pool: ",1"}
	nPairs := 140
	if tier == "thorough" {
		cfg = docCfg{N: 5, A: 2, Names: "a,b", Pool: ",1"}
		nPairs = 1200
	}
	var ops []string
	for _, ax := range oracle.Axes {
		for _, t := range []string{"a", "*", "node()", "text()"} {
			ops = append(ops, ax+"::"+t)
		}
	}
	ops = append(ops, "a", "*", "@a", "@*", ".", "..", "//a", "//*", "//@*", "a/a", "*/@a", "//text()", "//comment()", "a/..", "../*", ".//*", "/", "/*")
	var insts []*vm.Instance
	add := func(t string) {
		in := nodesetInst(t, cfg)
		// "each node once" is demanded of the union itself: only where the union
		// (or sequence step) is the outermost operation of the expression
		if top, ok := oracle.MustParse(t).(*oracle.Binary); ok && top.Op == "|" {
			in.Params["nodup"] = "1"
		} else if t == "*/(a, b)" || t == "./(a, *)" || t == "./(*, @*)" || t == "./(a, a)" {
			in.Params["nodup"] = "1" // sequence step from a single context / flat input
		}
		insts = append(insts, in)
	}
	for _, x := range []string{"a | a", "* | a", "a | *", "//a | //*", "//* | //a", "@* | *", ". | ..", "/* | /*/*", "a | b | *", "//a | //a | //a",

		"//text() | //comment()", ".//* | ancestor::*", "following::* | preceding::*", "self::* | descendant::* | ancestor::*", "(a | *)/a", "(//a | //b)/..", "*/(a, b)", "//a/(*, @a)", "./(a, *)", "./(*, @*)", "./(a, a)", "//*/(.., @*)",
		"//*[a | @a]", "//*[count(a | *) = 1]"} {
		add(x)
	}
	for k := 0; k < nPairs; k++ {
		a, b := pick(r, ops), pick(r, ops)
		if k%7 == 0 {
			add(a + " | " + b + " | " + pick(r, ops))
		} else {
			add(a + " | " + b)
		}
	}
	// a parenthesised union with a predicate: still the union's nodes, each once
	for _, t := range []string{"(a | */a)[true()]", "(//a | //b/a)[not(@a)]", "(a | */a)[a]", "(//a | //*/b)[. = '1']", "(* | */*)[true()]", "(//b/a | //a)[true()]", "(a | b/a | */*/a)[not(b)]"} {
		in := nodesetInst(t, cfg)
		in.Params["nodup"] = "1"
		insts = append(insts, in)
	}
	// unions over prefixed and unprefixed names (documents with symbolic prefixes)
	pcfg := docCfg{N: cfg.N, A: 0, Names: "a,b", Pool: ","}
	for _, t := range []string{"p:a | a", "a | p:a", "//p:a | //a", "//a | //p:b", "*/(p:a, a)", "p:a | p:b | b", "//p:a | //p:a", "p:a/a | a/p:a",
		"p:a | *", "//p:a | //*", "p:b | node()", "*/(p:a, *)", "p:a/* | a"} {
		in := nodesetInst(t, pcfg)
		in.ID += " prefixed"
		in.Params["prefixes"] = ",p"
		if top, ok := oracle.MustParse(t).(*oracle.Binary); ok && top.Op == "|" {
			in.Params["nodup"] = "1"
		}
		insts = append(insts, in)
	}
	// identity kernel: element names and text/comment values are free byte strings
	// (names over {a,b,-,.,1,2}, values over {a,=,-,1}); no name tests are used, so
	// only node identity (the dedup key) decides the result
	kcfg := docCfg{N: 4, A: 0, Names: "a", Pool: ","}
	if tier == "thorough" {
		kcfg = docCfg{N: 5, A: 0, Names: "a", Pool: ","}
	}
	for _, t := range []string{"/* | /*/*", "* | */*", "//* | //*", "//node() | //node()", "//text() | //comment()", "* | following::*", "ancestor::node() | preceding::node()",
		"//* | //text()", ". | * | */*", "//*[ancestor::*]", "//node()[ancestor::* and preceding::node()]", "*/(*, text())"} {
		in := nodesetInst(t, kcfg)
		in.ID = "identity: " + in.ID
		in.Params["freenames"] = "set:ab-.12"
		in.Params["freevals"] = "set:a=-1"
		in.Params["freevallen"] = "1"
		if tier == "thorough" {
			in.Params["freevallen"] = "2"
		}
		in.Params["abstracthash"] = "1"
		if top, ok := oracle.MustParse(t).(*oracle.Binary); ok && top.Op == "|" {
			in.Params["nodup"] = "1"
		}
		insts = append(insts, in)
	}
	// identity key kernel on abstract position paths (sibling indices 1, 2, 11, 12; depth <= 3)
	kindNames := []string{"element", "text", "comment", "attribute"}
	for kx := 0; kx < 4; kx++ {
		for ky := kx; ky < 4; ky++ {
			insts = append(insts, &vm.Instance{ID: "identity kernel: " + kindNames[kx] + " vs " + kindNames[ky] + " on position paths with one- and two-digit indices", Harness: "H_identity",
				Params: map[string]string{"abstracthash": "1", "kindx": strconv.Itoa(kx), "kindy": strconv.Itoa(ky)}})
		}
	}
	return &Family{
		Instances: withReuse(dedupInst(insts), 1),
		Canaries: []*vm.Instance{
			canaryInst("H_nodeset", "a | *", "a", cfg),
			canaryInst("H_nodeset", "//a | //@*", "//a", cfg),
			canaryInst("H_nodeset", "*/(a, b)", "*/a", cfg),
		},
		Bounds: map[string]interface{}{
			"document_slots_N_including_root": cfg.N, "attributes_per_element_A": cfg.A, "operands": "1-2 step paths over all axes",
		},
		Rule: "instance = union of 2-3 operand paths (all axes x {a,*,node(),text()} and abbreviations, seeded pairs) or sequence step; " +
			"case = explored symbolic path; non-trivial = reference union non-empty in the path's model",
		Outside: []string{"true FNV-64a collisions", "duplicate attribute names on one element", "node identity for names with '-' and digits is decided by the identity kernel (H_identity), not by these instances"},
		PerInst: 10 * time.Minute,
	}
}
