package checks

import (
	"fmt"
	"math/rand"
	"strconv"

	"gosym/oracle"
	"gosym/vm"
)

type docCfg struct {
	N, A  int
	Names string
	Pool  string
}

func (c docCfg) params() map[string]string {
	return map[string]string{"N": strconv.Itoa(c.N), "A": strconv.Itoa(c.A), "names": c.Names, "pool": c.Pool}
}

func (c docCfg) tag() string { return fmt.Sprintf("N%dA%d", c.N, c.A) }

// nodesetInst: H_nodeset on expression text (oracle parses the same text with its own parser).
func nodesetInst(text string, cfg docCfg) *vm.Instance {
	ast := oracle.MustParse(text)
	p := cfg.params()
	p["expr"] = text
	return &vm.Instance{ID: text + " @" + cfg.tag(), Harness: "H_nodeset", Params: p,
		Extra: &vm.OracleExtra{Exprs: map[string]oracle.Expr{"expr": ast, "reuse": ast}}}
}

// withReuse makes H_nodeset select a second time with the same compiled expression
// (every k-th instance; k = 1: all).
func withReuse(insts []*vm.Instance, k int) []*vm.Instance {
	for i, in := range insts {
		if in.Harness == "H_nodeset" && i%k == 0 {
			in.Params["reuse"] = "1"
		}
	}
	return insts
}

// canaryInst: the engine runs text, the obligation uses the (different) reference of wrong.
func canaryInst(harness, text, wrong string, cfg docCfg) *vm.Instance {
	ast := oracle.MustParse(wrong)
	p := cfg.params()
	p["expr"] = text
	return &vm.Instance{ID: "canary " + text + " vs " + wrong, Harness: harness, Params: p,
		Extra: &vm.OracleExtra{Exprs: map[string]oracle.Expr{"expr": ast}}}
}

var nodeTests = []string{"a", "*", "node()", "text()", "comment()"}

func pick(r *rand.Rand, l []string) string { return l[r.Intn(len(l))] }

func dedupInst(in []*vm.Instance) []*vm.Instance {
	seen := map[string]bool{}
	var out []*vm.Instance
	for _, i := range in {
		if !seen[i.ID] {
			seen[i.ID] = true
			out = append(out, i)
		}
	}
	return out
}

// moverPaths are node-set operands whose evaluation walks the shared context cursor away
// from the context node (predicates, absolute paths, reverse and following/preceding axes,
// groups, unions): whatever is evaluated after them must still see the context node.
var moverPaths = []string{"*[1]", "a[@a]", "*[. = '1']", "*[last()]", "/*", "//a", "/*/a", "following::*", "preceding::a", "(*)[1]", "a | //b", "../*", "ancestor::*", "*[a]/a", "//*[@a]", "following-sibling::*[1]"}

// stayPaths are operands relative to the context node that reveal a moved cursor.
var stayPaths = []string{"a", ".", "@a", "*", "count(*)", "name()", "string-length(.)"}
