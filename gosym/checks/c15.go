package checks

import (
	"fmt"
	"math/rand"
	"strings"
	"time"

	"gosym/oracle"
	"gosym/vm"
)

func init() {
	register(&Check{
		ID: "C15",
		Explain: "Token-level family of everything Compile may accept: every binary operator over every pair of operand kinds (symbolic " +
			"double, symbolic string, boolean, node-set, function results), every function with every argument kind in every position " +
			"(and too few / too many / no arguments), variables, every axis name, filters on non-node-sets. Numeric literals are fully " +
			"symbolic doubles and strings are symbolic bytes, the document is symbolic. On every path of Evaluate and of Select the " +
			"executor's fault branches (nil dereference, bounds, integer division, type assertion) and the classified panic value decide: " +
			"no Go run-time error, no foreign error, documented result type; exhausting the step budget is a non-termination candidate " +
			"that is replayed natively under a timeout.",
		Technique: "concolic symbolic execution of go/ssa with first-class fault branches and panic classification; fault feasibility decided by SMT (z3)",
		Assume: []string{
			"navigator contract of harness/nav.go",
			"a panic value counts as package-raised when it is an error created by errors.New/fmt.Errorf called from package xpath",
			"int(float64) follows the amd64 conversion (0x8000000000000000 for NaN/out of range)",
		},
		Build: buildC15,
	})
}

type holeSpec map[string]string

func totalInst(text string, cfg docCfg) *vm.Instance {
	p := cfg.params()
	p["expr"] = text
	for k := 1; k <= 9; k++ {
		if strings.Contains(text, fmt.Sprintf("900%d", k)) {
			p[fmt.Sprintf("hole.h%d", k)] = "any"
		}
		if strings.Contains(text, fmt.Sprintf("#S%d", k)) {
			p[fmt.Sprintf("hole.S%d", k)] = c15StrLen + ":xmlascii"
		}
	}
	if c15Quick && strings.Contains(text, "substring(") {
		// numeric arguments of substring: quarter steps (one path per value) in the quick tier;
		// a fully symbolic double under floor/+ makes the FP back ends answer unknown under load
		for k := 1; k <= 9; k++ {
			if _, ok := p[fmt.Sprintf("hole.h%d", k)]; ok {
				p[fmt.Sprintf("hole.h%d", k)] = "qc:-6:14"
			}
		}
	}
	return &vm.Instance{ID: text + " @" + cfg.tag(), Harness: "H_total", Params: p}
}

// operand kinds: {number hole, string hole, boolean, node-sets, function results of each type}
var c15Quick = true
var c15StrLen = "1"

func c15Operands(k int) []string {
	n, s := fmt.Sprintf("900%d", k), fmt.Sprintf("'#S%d'", k)
	if c15Quick {
		return []string{n, s, "true()", "a", "string(a)", "round(" + n + ")"}
	}
	return []string{n, s, "true()", "a", "@a", "count(a)", "string(a)", "not(a)", "round(" + n + ")"}
}

type fnSig struct {
	name  string
	arity int // canonical number of arguments
	kinds string // expected kinds per position: n number, s string, b boolean, x node-set, * any
}

var c15Funcs = []fnSig{
	{"count", 1, "x"}, {"sum", 1, "x"}, {"number", 1, "*"}, {"string", 1, "*"}, {"boolean", 1, "*"}, {"not", 1, "*"},
	{"floor", 1, "n"}, {"ceiling", 1, "n"}, {"round", 1, "n"}, {"name", 1, "x"}, {"local-name", 1, "x"}, {"namespace-uri", 1, "x"},
	{"string-length", 1, "s"}, {"normalize-space", 1, "s"}, {"lower-case", 1, "s"}, {"reverse", 1, "x"},
	{"concat", 2, "ss"}, {"contains", 2, "ss"}, {"starts-with", 2, "ss"}, {"ends-with", 2, "ss"}, {"substring-before", 2, "ss"}, {"substring-after", 2, "ss"},
	{"substring", 2, "sn"}, {"substring", 3, "snN"}, {"translate", 3, "sss"}, {"replace", 3, "sss"}, {"matches", 2, "ss"}, {"string-join", 2, "xs"},
	{"true", 0, ""}, {"false", 0, ""}, {"position", 0, ""}, {"last", 0, ""},
}

func defaultArg(kind byte, k int) string {
	switch kind {
	case 'n':
		return fmt.Sprintf("900%d", k)
	case 's':
		return fmt.Sprintf("'#S%d'", k)
	case 'b':
		return "true()"
	case 'x':
		return "a"
	case 'N': // a second numeric argument: a literal in the quick tier (two interacting symbolic doubles are undecided by the FP back ends)
		if c15Quick {
			return "2"
		}
		return fmt.Sprintf("900%d", k)
	}
	return "a"
}

func buildC15(tier string, seed int64) *Family {
	r := rand.New(rand.NewSource(seed))
	cfg := docCfg{N: 3, A: 1, Names: "a,b", Pool: ",1,x"}
	nestN := 60
	c15Quick = tier != "thorough"
	c15StrLen = "1"
	if tier == "thorough" {
		c15StrLen = "2"
		cfg = docCfg{N: 4, A: 1, Names: "a,b", Pool: ",1,x, 1"}
		nestN = 1500
	}
	var exprs []string
	ops := []string{"or", "and", "=", "!=", "<", "<=", ">", ">=", "+", "-", "*", "div", "mod", "|"}
	for _, op := range ops {
		for _, l := range c15Operands(1) {
			for _, rr := range c15Operands(2) {
				exprs = append(exprs, l+" "+op+" "+rr)
			}
		}
	}
	for _, l := range c15Operands(1) {
		exprs = append(exprs, "-"+l, l+"[1]", l+"[a]", "("+l+")[9002]", l+"/a", "*["+l+"]", "//*["+l+"]")
	}
	// functions: every argument kind in every position; arity damage
	for _, f := range c15Funcs {
		base := make([]string, f.arity)
		for i := range base {
			base[i] = defaultArg(f.kinds[i], i+1)
		}
		exprs = append(exprs, f.name+"("+strings.Join(base, ", ")+")")
		for i := 0; i < f.arity; i++ {
			for _, a := range c15Operands(i + 1) {
				args := append([]string{}, base...)
				args[i] = a
				exprs = append(exprs, f.name+"("+strings.Join(args, ", ")+")")
			}
		}
		if f.arity > 0 {
			exprs = append(exprs, f.name+"()", f.name+"("+strings.Join(base[:f.arity-1], ", ")+")")
		}
		exprs = append(exprs, f.name+"("+strings.Join(append(append([]string{}, base...), "a"), ", ")+")")
		exprs = append(exprs, "*["+f.name+"("+strings.Join(base, ", ")+")]")
	}
	// variables, axes, odd forms
	exprs = append(exprs, "$x", "$x/a", "$x = 1", "a[$x]", "count($x)", "$p:x", "1[1]", "'a'[1]", "true()[1]", "(1)[1]", "9001[9002]", "'#S1'['#S2']",
		"a[9001]", "*[9001]", "//*[9001]", "(//*)[9001]", "a[position() = 9001]", "a[last() - 9001]", "a[9001][9002]", "*[-9001]", "a[9001 mod 9002]",
		"processing-instruction()", "processing-instruction('x')", "a/processing-instruction()", "node()", "text()", "comment()", "a = 1 or * = 1", "a = 1 and * = 1", "(a = 1) | (b = 1)", "a | 1", "1 | a", "(1, 2)", "a/(1)", "a/(b, 2)")
	// patterns that only exist at evaluation time (and do not compile), looked up more than once
	exprs = append(exprs, "matches('abc', concat('[', 'a'))", "replace('abc', concat('(', 'b'), 'x')", "matches(a, concat('(', @a))", "//*[matches(., concat('[', .))]",
		"matches('abc', concat('[', 'a')) or matches('abc', concat('[', 'a'))", "count(//*[matches(., concat('*', ''))])", "replace(a, concat('[', ''), '#S1')")
	// non-ASCII strings (concrete probes: byte length differs from character length)
	exprs = append(exprs, "translate('abcabc', 'abc', 'é')", "translate('abc', 'é', 'x')", "translate('éa', 'é', 'ab')", "translate('abc', 'cba', 'éx')", "translate(a, 'cba', 'éxyz')",
		"substring('日本語', 2)", "substring('日本語', 2, 1)", "string-length('é')", "normalize-space(' é  ü ')", "lower-case('ÉA')", "contains('é', 'é')", "starts-with('éa', 'é')",
		"substring-before('aéb', 'é')", "substring-after('aéb', 'é')", "concat('é', a)", "string-join(*, 'é')", "//*[. = 'é']", "translate('日本', '本日', 'ab')", "replace('aéb', 'é', 'x')",
		"matches('é', '^.$')", "'é' = 'é'", "'é' < 1", "é", "//é", "@é", "é:é", "*[é]")
	for _, ax := range append(append([]string{}, oracle.Axes...), "namespace", "Namespace", "child ", "foo") {
		exprs = append(exprs, ax+"::a", ax+"::*", ax+"::a/b", "a/"+ax+"::node()", ax+"::a[1]", "*["+ax+"::a]", "count("+ax+"::*)")
	}
	// substring with the special values as literals
	for _, a := range []string{"0 div 0", "1 div 0", "-1 div 0", "10000000000", "-10000000000", "-0", "0.5", "1e1"} {
		if a == "1e1" {
			continue
		}
		exprs = append(exprs, "substring('#S1', "+a+")", "substring('#S1', "+a+", 1)", "substring('#S1', 1, "+a+")", "substring(a, "+a+", "+a+")")
	}
	// several predicates on one step, position()/last() inside other functions
	exprs = append(exprs, "*[@a][not(position() = last())]", "*[a][floor(last())]", "*[1][string(last())]", "*[a][last() - 1]", "*[@a][position() = last()]", "a[1][last()]",
		"//*[a][number(last()) > 1]", "*[. = 1][boolean(last())]", "*[a][count(*) = last()]", "*[true()][round(last() div 2)]", "*[last()][last()]", "*[position()][position()]",
		"*[a][string-length(last())]", "//*[@a][concat(last(), '')]", "(*)[not(position() = last())]", "*[a][not(last())]", "*[9001][last()]", "*[last()][9001]")
	// nesting once: combine two random members
	base := append([]string{}, exprs...)
	for k := 0; k < nestN; k++ {
		a, b := pick(r, base), pick(r, base)
		b = strings.NewReplacer("9001", "9003", "9002", "9004", "#S1", "#S3", "#S2", "#S4").Replace(b)
		switch k % 5 {
		case 0:
			exprs = append(exprs, "("+a+") "+pick(r, ops)+" ("+b+")")
		case 1:
			exprs = append(exprs, pick(r, []string{"string", "number", "boolean", "not", "count", "sum", "floor", "string-length", "normalize-space", "round"})+"("+a+")")
		case 2:
			exprs = append(exprs, "*["+a+"]["+b+"]")
		case 3:
			exprs = append(exprs, "substring("+a+", "+b+")")
		case 4:
			exprs = append(exprs, "concat("+a+", "+b+")")
		}
	}
	var insts []*vm.Instance
	for _, x := range exprs {
		insts = append(insts, totalInst(x, cfg))
	}
	// per-candidate state of predicate queries only shows with several candidates of which an
	// earlier one has a longer result: larger documents, elements only
	big := docCfg{N: 5, A: 0, Names: "a,b", Pool: ",1"}
	for _, ax := range oracle.Axes {
		if ax == "attribute" {
			continue
		}
		insts = append(insts, totalInst("//*["+ax+"::*]", big), totalInst("//*["+ax+"::* = '1']", big))
		if tier == "thorough" {
			insts = append(insts, totalInst("//*[count("+ax+"::*) > 1]", big), totalInst("//*["+ax+"::*[a]]", big), totalInst("//*[not("+ax+"::a)]/"+ax+"::*", big))
		}
	}
	for _, t := range []string{"//*[descendant::a/descendant::b]", "//*[descendant::*/descendant::*]", "//*[descendant::a//b]", "//*[(a)[1]]", "//*[a/b[1]]", "//*[*[*]]", "//*[descendant-or-self::a/descendant::*]",
		"count(//*[descendant::*/descendant::*])", "//*[not(descendant::a/descendant::*)]", "//*[a[position() > 0]]", "//*[(*)[last()]]", "//*[*/*[last()]]"} {
		insts = append(insts, totalInst(t, big))
	}
	can := totalInst("a", cfg)
	can.ID = "canary " + can.ID
	can.Params["canary"] = "1"
	return &Family{
		Instances: dedupInst(insts),
		Canaries:  []*vm.Instance{can},
		Bounds: map[string]interface{}{
			"document_slots_N_including_root": cfg.N, "attributes_per_element_A": cfg.A, "value_pool": cfg.Pool,
			"numeric_literals": "symbolic float64 (any value incl. NaN, +-Inf, +-0)", "string_literals": "0-2 symbolic XML-legal ASCII bytes",
			"nesting": "one level (seeded)", "step_budget_per_path": 5000000,
		},
		Rule: "instance = one token-level expression (operator x operand-kind pairs, function x argument kind per position, arity damage, variables, axis names, " +
			"filters on non-node-sets, seeded nesting); instances Compile rejects are counted but trivial; case = explored symbolic path; non-trivial = Compile accepted and Evaluate/Select ran",
		Outside: []string{"expressions nested deeper than one level beyond the seeded sample", "documents beyond the bounds", "memory exhaustion"},
		PerInst: perInstC15(tier),
		BudgetIsViolation: true,
	}
}

func perInstC15(tier string) time.Duration {
	if tier == "thorough" {
		return 10 * time.Minute
	}
	return 240 * time.Second
}
