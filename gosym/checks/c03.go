package checks

import (
	"math/rand"
	"time"

	"gosym/vm"
)

func init() {
	register(&Check{
		ID: "C03",
		Explain: "Each instance is a child-axis step whose first predicate is positional (optionally followed by a boolean " +
			"predicate), or a parenthesised flat path / single descendant step filtered by [n]. The real code runs symbolically " +
			"over a symbolic document and context; on every path the solver decides that the returned set equals the reference " +
			"set computed from XPath proximity positions (per-parent restart; document order for (E)[n]).",
		Technique: "concolic symbolic execution of go/ssa + SMT (z3) per-path set-equality obligation against a reference XPath semantics",
		Assume: []string{
			"navigator contract of harness/nav.go",
			"reference semantics gosym/oracle (XPath 1.0 §2.4 proximity position, position(), last())",
		},
		Build: buildC03,
	})
}

func buildC03(tier string, seed int64) *Family {
	r := rand.New(rand.NewSource(seed))
	cfg := docCfg{N: 5, A: 1, Names: "a,b", Pool: ",1"}
	cfgBig := cfg
	nSeed := 60
	if tier == "thorough" {
		cfg = docCfg{N: 6, A: 1, Names: "a,b", Pool: ",1"}
		cfgBig = docCfg{N: 6, A: 1, Names: "a,b", Pool: ",1"}
		nSeed = 500
	}
	pos := []string{"1", "2", "3", "position() = 1", "position() = 2", "position() < 2", "position() > 1", "position() <= 2", "position() >= 2",
		"position() != 1", "last()", "position() = last()", "last() - 1", "position() < last()", "position() = last() - 1", "last() = 2", "position() + 1 = last()",
		// the same tests written the other way round: position() is evaluated after last()
		"last() = position()", "last() - 1 = position()", "last() > position()", "2 = position()", "1 < position()", "last() = position() + 1"}
	steps := []string{"child::a", "child::*", "a", "*", "child::node()", "text()"}
	ctxs := []string{"", "//", "/*/", "a/", "*/", ".//", "/", "descendant::*/", "../"}
	bools := []string{"@a", "a", ". = '1'", "not(a)", "following-sibling::*"}
	var insts []*vm.Instance
	add := func(t string, c docCfg) { insts = append(insts, nodesetInst(t, c)) }
	for _, p := range pos {
		add("*["+p+"]", cfg)
		add("//a["+p+"]", cfg)
		add("//*["+p+"]", cfg)
		add("child::a["+p+"]", cfg)
	}
	for k := 0; k < nSeed; k++ {
		t := pick(r, ctxs) + pick(r, steps) + "[" + pick(r, pos) + "]"
		if k%3 == 0 {
			t += "[" + pick(r, bools) + "]"
		}
		if k%5 == 0 {
			t += "/" + pick(r, steps)
		}
		add(t, cfgBig)
	}
	// a numeric first predicate followed by a boolean one on a child step with several parents
	// (systematic: no merge query is built for this shape, the step keeps its own counter)
	for i, p := range []string{"1", "2", "last()", "last() - 1", "position() = 2"} {
		for j, c := range []string{"//a", "*/*", "//*", "/*/*", "a/*"} {
			if tier != "thorough" && (i+j)%2 != 0 {
				continue
			}
			add(c+"["+p+"]["+bools[(i+j)%len(bools)]+"]", cfg)
		}
	}
	// a positional step reached through '//' or a path and followed by further steps: the
	// counter restarts per parent whatever comes after the step
	contCfg := docCfg{N: cfg.N, A: 0, Names: "a,b", Pool: ","}
	contPos := []string{"1", "2", "last()", "position() = 2", "last() - 1", "position() < last()"}
	for i, pre := range []string{"//a", "//*", "a", "*/a", "/*/*", "descendant::a"} {
		for j, cont := range []string{"//b", "/descendant::*", "/b", "/..", "/@a", "//*", "/following-sibling::*", "/descendant-or-self::a"} {
			for k, p := range contPos {
				if tier != "thorough" && (i+j+k)%5 != 0 {
					continue
				}
				if pre == "descendant::a" {
					continue // positional predicate on a non-child axis: outside the statement
				}
				c := contCfg
				if cont == "/@a" {
					c = cfg
				}
				add(pre+"["+p+"]"+cont, c)
			}
		}
	}
	// a positional child step inside a predicate: evaluated once per candidate, it must
	// start from the candidate's own children every time
	inCfg := docCfg{N: cfg.N, A: 0, Names: "a,b", Pool: ","}
	for i, p := range append(append([]string{}, pos...), "position() > 0") {
		if tier != "thorough" && i%2 == 1 {
			continue
		}
		add("//*[*["+p+"]]", inCfg)
		if i%4 == 0 || tier == "thorough" {
			add("//*[a["+p+"]]", inCfg)
			add("*[*["+p+"]/*]", inCfg)
		}
	}
	for _, t := range []string{"//*[(a)[2]]", "//*[(*)[1]]", "//*[(*)[2]/*]", "*[(a | b)[2]]", "//a[. = (../a)[2]]"} {
		add(t, inCfg)
	}
	// (E)[n]
	for _, e := range []string{"a", "*", "//a", "//*", "@*", "*/a", "a/@a", "*/*", "descendant::a", "descendant::*", "self::*", "child::node()", "*/@*"} {
		for _, n := range []string{"1", "2", "3"} {
			add("("+e+")["+n+"]", cfg)
		}
	}
	return &Family{
		Instances: withReuse(dedupInst(insts), 3),
		Canaries: []*vm.Instance{
			canaryInst("H_nodeset", "//a[1]", "(//a)[1]", cfg),
			canaryInst("H_nodeset", "*[last()]", "*[1]", cfg),
			canaryInst("H_nodeset", "*[position() < 2]", "*[position() <= 2]", cfg),
			canaryInst("H_nodeset", "(//*)[2]", "//*[2]", cfg),
		},
		Bounds: map[string]interface{}{
			"document_slots_N_including_root": cfg.N, "attributes_per_element_A": cfg.A, "positions_n": "1..3 (concrete literals)",
		},
		Rule: "instance = context path x child step x positional predicate (x optional boolean predicate / continuation), and (E)[n] forms; " +
			"case = explored symbolic path; non-trivial = reference set non-empty in the path's model",
		Outside: []string{"positional predicates on non-child axes", "non-integer positions", "a positional predicate that is not the first predicate of its step", "(E)[last()] and other non-literal predicates on parenthesised paths"},
		PerInst: 10 * time.Minute,
	}
}
