package checks

import (
	"math/rand"
	"strings"
	"time"

	"gosym/vm"
)

func init() {
	register(&Check{
		ID: "C06",
		Explain: "(a-c) Compile, CompileWithNS (nil / empty / binding map) and MustCompile run symbolically on free byte strings (every string " +
			"of up to L symbolic ASCII bytes) and on token-class templates (valid and damaged) with symbolic token contents: no panic escapes, " +
			"exactly one of (usable expression, error), MustCompile usable, termination within the step budget. (d) bounded recursion: on " +
			"nested inputs a re-entry monitor checks that every parser/builder method re-entered while still active sees a strictly larger " +
			"depth-guard counter; (e) the guards bite: parseExpression / processNode started from a symbolic counter value abort with the " +
			"'too complex' error whenever the counter is at its limit. (d)+(e) bound the stack depth independently of the input length.",
		Technique: "concolic symbolic execution of go/ssa (scanner/parser/builder on symbolic bytes) with SMT-decided path exploration; re-entry monitor and one-step inductive guard check",
		Assume: []string{
			"free strings: ASCII 0x01-0x7F (NUL ends the scanner's input; multi-byte and invalid UTF-8 inputs are concrete probes only)",
			"(d) is established on nesting forms that close every call cycle of the recursive-descent grammar; stack exhaustion itself is not executed",
		},
		Build: buildC06,
	})
}

func compileInst(id string, params map[string]string, ns string) *vm.Instance {
	p := map[string]string{"ns": ns}
	for k, v := range params {
		p[k] = v
	}
	return &vm.Instance{ID: id + " ns=" + ns, Harness: "H_compile", Params: p}
}

func buildC06(tier string, seed int64) *Family {
	r := rand.New(rand.NewSource(seed))
	L := "3"
	nTpl := 70
	if tier == "thorough" {
		L = "4"
		nTpl = 400
	}
	var insts []*vm.Instance
	for _, ns := range []string{"nil", "empty", "p"} {
		insts = append(insts, compileInst("free string L<="+L, map[string]string{"L": L}, ns))
	}
	// templates: the valid ones and a seeded sample of the damaged ones of C17
	var tpls []string
	tpls = append(tpls, c17Valid...)
	dam := buildC17("thorough", seed).Instances
	r.Shuffle(len(dam), func(i, j int) { dam[i], dam[j] = dam[j], dam[i] })
	for i := 0; i < len(dam) && i < nTpl; i++ {
		tpls = append(tpls, dam[i].Params["tpl"])
	}
	tpls = append(tpls, "N1 : N2 [ N1 : N3 ]", "p : N1", "N : N1", "p : N1 / q : N2", "N1 P1 N2", "P1 N1", "N1 P1", "P1 P2", "D1 P1 D2", "S1 P1", "N1 W1 P1 W2 N2", "( P1 )", "N1 [ P1 ]",
		"$ N1 + D1", "$ N1 | N2", "N1 [ $ N2 w1 and w2 N3 ]", "N9 ( ) * D1", "namespace :: N1 | N2", "$ N1 = D1", "D1 + $ N1", "N9 ( ) | N1", "$ N1 / N2 | N3", "- $ N1",
		"N1 [ N9 ( ) or N2 ]", "count ( $ N1 ) + D1", "( $ N1 ) | N2", "N1 | $ N2",
		// constant regular expressions: valid, invalid, symbolic
		"matches ( N1 , '[' )", "matches ( N1 , 'a(' )", "replace ( N1 , '(' , 'x' )", "replace ( N1 , 'a)' , S1 )", "matches ( N1 , S1 )", "replace ( N1 , S1 , 'x' )",
		"N1 [ matches ( . , '[' ) ]", "count ( N1 [ replace ( . , '*' , '' ) ] )", "matches ( N1 , '[a' ) or N2",
		// an unknown axis / function / wrong arity that is not the outermost node
		"N9 :: N1 / N2", "N1 / N9 :: N2", "count ( N1 / N9 :: N2 )", "N1 [ N2 = N9 :: N3 ]", "N1 | N9 :: N2 / N3", "sum ( N9 :: N1 / text ( ) ) + D1", "( N9 :: N1 )", "( N9 :: N1 / N2 ) [ D1 ]",
		"N9 ( N1 ) = D1", "N1 [ N9 ( ) ]", "( N9 ( N1 ) )", "( count ( ) )", "( ( N1 | N9 :: N2 ) )", "( substring ( N1 ) )", "N9 ( N1 ) | N2", "- N9 ( N1 )", "N1 [ concat ( N2 ) = S1 ]",
		"D1 . D2", ". D1", "D1 .", "D1 . . D2", "N1 ( P1 )", "@ P1", "N1 :: P1", "$ N1", "$ N1 / N2", "$ P1", "N1 ( ) ( )", "N1 [ ] ", "( )", "[ ]", "N1 / / N2", "N1 | | N2")
	for i, t := range tpls {
		ns := []string{"nil", "empty", "p"}[i%3]
		if strings.Contains(t, ":") {
			ns = "p"
		}
		insts = append(insts, compileInst("template: "+t, map[string]string{"tpl": t}, ns))
	}
	// (d) nesting forms: prefix unit^n core close^n
	type nest struct{ prefix, unit, core, close string }
	forms := []nest{
		{"", "(", "a", ")"}, {"a/", "(", "a", ")"}, {"", "a[", "a", "]"}, {"", "a[(", "a", ")]"}, {"", "count(", "a", ")"}, {"", "not(", "a", ")"},
		{"", "-(", "1", ")"}, {"", "(a|", "a", ")"}, {"//", "*[", "a", "]"}, {"", "concat(a,", "a", ")"}, {"", "a/", "a", ""},
		{"", "1+", "1", ""}, {"", "a[a=", "1", "]"}, {"", "(a)[", "1", "]"}, {"", "a|", "a", ""}, {"", "a//", "a", ""}, {"", "a and ", "a", ""}, {"", "-", "1", ""},
		{"", "string(a[", "a", "])"},
		// a completed inner construct precedes each deeper level (the counter must not drift)
		{"a/", "((b),", "(b)", ")"}, {"", "((1)+", "(1)", ")"}, {"", "a[(1)][", "1", "]"}, {"", "count((a)|", "(a)", ")"}, {"", "(a)[(", "1", ")]"},
		{"", "concat((a),", "(a)", ")"}, {"", "a[b[1]][", "1", "]"}, {"", "../", "a", ""}, {"", "a[", "1", "][1]"},
	}
	for _, f := range forms {
		insts = append(insts, &vm.Instance{ID: "nesting: " + f.prefix + "{" + f.unit + "}^n " + f.core + " {" + f.close + "}^n", Harness: "H_deepnest",
			Params: map[string]string{"prefix": f.prefix, "unit": f.unit, "core": f.core, "close": f.close, "n": "4", "native_n": "200000"}})
	}
	// flat repetitions: the work per repeated unit must not multiply (a step budget exhausted
	// in the executor is replayed natively under a 20 s deadline)
	for _, f := range [][2]string{{"a", "[1]"}, {"a", "[@a]"}, {"(//a)", "[a]"}, {"a", "/a"}, {"1", "+1"}, {"a", "|a"}, {"a", " or a"}, {"a", "[a][1]"}, {"a", "//a"}, {"a", "[a and a]"}, {"-1", "*-1"}, {"a", "=a"}} {
		insts = append(insts, &vm.Instance{ID: "flat repetition: " + f[0] + "{" + f[1] + "}^40", Harness: "H_deepnest",
			Params: map[string]string{"prefix": f[0], "unit": f[1], "core": "", "close": "", "n": "40"}})
	}
	// (e) the guards bite
	for _, in := range []string{"1", "(1)", "a[1]", "a/b", "count(a)", "a or b"} {
		insts = append(insts, &vm.Instance{ID: "guard parser: " + in, Harness: "H_guard", Params: map[string]string{"which": "parser", "input": in}})
		insts = append(insts, &vm.Instance{ID: "guard builder: " + in, Harness: "H_guard", Params: map[string]string{"which": "builder", "input": in}})
	}
	can := &vm.Instance{ID: "canary guard parser limit 100", Harness: "H_guard", Params: map[string]string{"which": "parser", "input": "1", "canary": "1"}}
	return &Family{
		Instances:         dedupInst(insts),
		Canaries:          []*vm.Instance{can},
		BudgetIsViolation: true,
		Bounds: map[string]interface{}{
			"free_string_length_L": L, "free_string_alphabet": "ASCII 0x01-0x7F (symbolic)", "templates": len(tpls), "namespace_maps": "nil, {}, {p:u, N:u}",
			"nesting_depth_under_monitor": 4, "nesting_depth_native_replay": 200000, "guard_pre_state": "counter symbolic in [0, 2^40]",
		},
		Rule: "instance = free-string family per namespace map, one template (valid or damaged) per instance, one nesting form, one guard pre-state harness; " +
			"case = explored symbolic path over the input bytes / counter; non-trivial = the input reached Compile",
		Outside: []string{"inputs longer than the bounds except through (d)+(e)", "non-ASCII bytes in the symbolic families", "memory exhaustion"},
		PerInst: 5 * time.Minute,
	}
}
