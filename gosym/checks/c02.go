package checks

import (
	"math/rand"
	"time"

	"gosym/oracle"
	"gosym/vm"
)

func init() {
	register(&Check{
		ID: "C02",
		Explain: "Each instance is a step or parenthesised path with 1-2 boolean predicates (nesting <= 2). The real code runs " +
			"symbolically over a symbolic document (shape, kinds, names, attribute lists, node values from a pool) and context; " +
			"the solver decides on every path that the returned set equals the reference set, i.e. exactly the candidates whose " +
			"predicates are true are kept, whatever candidates were tested before.",
		Technique: "concolic symbolic execution of go/ssa + SMT (z3) per-path set-equality obligation against a reference XPath semantics",
		Assume: []string{
			"navigator contract of harness/nav.go; node string-values are per-node symbols drawn from the stated pool",
			"reference semantics gosym/oracle (XPath 1.0 §2.4 predicates, §3.4 booleans, §4 core functions used)",
		},
		Build: buildC02,
	})
}

// boolean predicate atoms over the context candidate
func c02Atoms(r *rand.Rand, all bool) []string {
	var out []string
	axes := oracle.Axes
	for _, ax := range axes {
		out = append(out, ax+"::a", ax+"::*")
	}
	out = append(out,
		"@a", "@*", "a", "text()", "..", "a/a", "*/a", ".//a", "a//a",
		". = '1'", ". != '1'", "@a = '1'", "@a != '1'", "a = '1'", "a != 'x'", "text() = '1'", "*/@a = '2'", "a = a", "a = @a", "a != @a",
		". > 1", "a < 2", "a >= 1", "@a <= 1", "2 > a", "1 = a", "@a > @b",
		"count(a) = 1", "count(*) > 1", "count(following-sibling::*) = 0", "count(ancestor::*) >= 1", "count(preceding::a) < 1", "count(.//a) = 2", "count(@*) = 1",
		"contains(., '1')", "contains(@a, 'x')", "starts-with(., '1')", "starts-with(a, 'x')", "contains(a, '')",
		"local-name() = 'a'", "local-name() != 'a'", "local-name(..) = 'a'",
		"not(a)", "not(@a)", "not(. = '1')", "not(following-sibling::a)", "not(count(a) = 1)", "not(not(a))",
		"true()", "false()", "boolean(a)",
	)
	return out
}

// the 6-slot instances kept in the quick tier (one per carry-over mechanism)
var c02BigQuick = map[string]bool{"//*[descendant::a/descendant::b]": true, "//*[(a)[1]]": true, "//*[(*)[2]]": true, "//*[a/b[1]]": true, "//*[b/a[not(*)]]": true,
	"//*[*[*[*]]]": true, "//*[not(descendant::a/descendant::b)]": true, "//*[a[b][1]]": true}

func buildC02(tier string, seed int64) *Family {
	r := rand.New(rand.NewSource(seed))
	cfg := docCfg{N: 4, A: 1, Names: "a,b", Pool: ",1,x"}
	nComb := 40
	nNest := 28
	if tier == "thorough" {
		cfg = docCfg{N: 5, A: 1, Names: "a,b", Pool: ",1,2,x"}
		nComb = 500
		nNest = 400
	}
	atoms := c02Atoms(r, true)
	bases := []string{"//*", "child::*", "//a", "(//*)", "descendant::a", "*"}
	var insts []*vm.Instance
	add := func(t string) { insts = append(insts, nodesetInst(t, cfg)) }
	for i, at := range atoms {
		add("//*[" + at + "]")
		add(bases[1+i%(len(bases)-1)] + "[" + at + "]")
	}
	for k := 0; k < nComb; k++ {
		a, b := pick(r, atoms), pick(r, atoms)
		switch k % 4 {
		case 0:
			add(pick(r, bases) + "[" + a + " and " + b + "]")
		case 1:
			add(pick(r, bases) + "[" + a + " or " + b + "]")
		case 2:
			add(pick(r, bases) + "[" + a + "][" + b + "]")
		case 3:
			add(pick(r, bases) + "[not(" + a + " or " + b + ")]")
		}
	}
	// nesting: predicates inside predicate paths, predicates on inner steps
	inner := []string{"a", "*", "@a", "following-sibling::*", "ancestor::*", "descendant::*", "preceding-sibling::a", "..", "following::a", "preceding::*"}
	for k := 0; k < nNest; k++ {
		a, b := pick(r, atoms), pick(r, atoms)
		switch k % 4 {
		case 0:
			add("//*[" + pick(r, inner) + "[" + a + "]]")
		case 1:
			add(pick(r, bases) + "[" + a + "]/" + pick(r, inner) + "[" + b + "]")
		case 2:
			add("//*[count(" + pick(r, inner) + "[" + a + "]) = 1]")
		case 3:
			add("//*[" + pick(r, inner) + "[" + a + "] and not(" + pick(r, inner) + "[" + b + "])]")
		}
	}
	// a descendant-type step with a predicate, followed by another descendant-type step: a
	// match that fails the predicate may contain one that passes it
	for _, t := range []string{"descendant::a[@a]/descendant::b", "descendant::a[b]/descendant::*", "descendant-or-self::a[@a]//b", "/descendant::a[not(@a)]/descendant::a",
		"descendant::*[@a]/descendant-or-self::b", "descendant::a[. = '1']//*", "descendant::a[a]/descendant::a[@a]/descendant::*"} {
		add(t)
	}
	// node values that look like numbers in other notations are not XPath numbers
	lcfg := docCfg{N: 3, A: 1, Names: "a,b", Pool: "1e1,10,0x1,+1,.5, 1 "}
	for _, t := range []string{"//*[. > 0]", "//*[@a = 10]", "//*[. != 10]", "//*[not(. > 0) and not(. <= 0)]", "//*[@a < 1]", "//*[. = 1]", "*[count(*[. >= 1]) = 1]"} {
		insts = append(insts, nodesetInst(t, lcfg))
	}
	// elements with several attributes: wildcard attribute predicates leave a half-consumed
	// attribute cursor behind for the next candidate
	acfg := docCfg{N: 3, A: 2, Names: "a,b", Pool: cfg.Pool}
	if tier == "thorough" {
		acfg = docCfg{N: 4, A: 2, Names: "a,b", Pool: cfg.Pool}
	}
	for _, t := range []string{"//*[@*]", "*[@*]", "//*[@* = '1']", "//*[@* != '1']", "//*[not(@*)]", "//*[@*][@a]", "//*[count(@*) = 1]", "//*[@a or @b]", "//*[@* = '1' and @b]",
		"preceding-sibling::*[@* = '1']", "//*[@*]/@*", "//*[@* > 0]", "//*[contains(@*, '1')]", "//@*[. = '1']", "//*[@a = @b]"} {
		insts = append(insts, nodesetInst(t, acfg))
	}
	// carry-over between candidates needs two candidates that each have inner structure:
	// larger documents (elements only matter here: one value, no attributes) for predicates
	// whose inner path is a merged positional step, a descendant-over-descendant step, a
	// parenthesised group or a doubly nested filter
	big := docCfg{N: 6, A: 0, Names: "a,b", Pool: ","}
	bigA := docCfg{N: 5, A: 1, Names: "a,b", Pool: ",1"}
	if tier == "thorough" {
		big = docCfg{N: 7, A: 0, Names: "a,b", Pool: ","}
		bigA = docCfg{N: 6, A: 1, Names: "a,b", Pool: ",1"}
	}
	for _, t := range []string{"//*[descendant::a/descendant::b]", "//a[descendant::*/descendant::*]", "//*[descendant::a//b]", "*[descendant-or-self::a/descendant::b]",
		"//*[(a)[1]]", "//*[(*)[2]]", "//a[(b | a)[1]]", "//*[a/b[1]]", "//*[*/*[2]]", "//*[a[b][1]]", "//*[b/a[not(*)]]", "//*[a/b[a]]", "//*[*[*[*]]]",
		"//*[not(descendant::a/descendant::b)]", "//*[count(descendant::a/descendant::b) = 1]", "//*[a/b[1] or b]", "//a[*/*[last()]]"} {
		if tier != "thorough" && !c02BigQuick[t] {
			continue
		}
		insts = append(insts, nodesetInst(t, big))
	}
	for _, t := range []string{"//*[a[@a][2]]", "//*[*[@a][1]]", "//*[a/b[contains(., '1')]]", "//*[a/*[. = '1']]", "//*[*/a[@a = '1']]", "//*[(a)[1] = '1']", "//*[(*)[1]/@a]", "//*[a[. = '1'][1]]"} {
		insts = append(insts, nodesetInst(t, bigA))
	}
	return &Family{
		Instances: withReuse(dedupInst(insts), 3),
		Canaries: []*vm.Instance{
			canaryInst("H_nodeset", "//*[a]", "//*[*]", cfg),
			canaryInst("H_nodeset", "//*[. = '1']", "//*[. != '1']", cfg),
			canaryInst("H_nodeset", "//*[count(a) = 1]", "//*[count(a) >= 1]", cfg),
			canaryInst("H_nodeset", "//*[a and @a]", "//*[a or @a]", cfg),
		},
		Bounds: map[string]interface{}{
			"document_slots_N_including_root": cfg.N, "attributes_per_element_A": cfg.A, "name_classes": 2, "value_pool": cfg.Pool,
			"predicates_per_step": "1-2", "predicate_nesting": "<= 2",
		},
		Rule: "instance = base step/path x predicate (every atom on //* and one other base; seeded and/or/not combinations and nested predicates); " +
			"case = explored symbolic path; non-trivial = reference set non-empty in the path's model",
		Outside: []string{"relational operators between strings", "functions other than count/contains/starts-with/local-name/not/boolean/true/false", "positional predicates (C03)", "documents beyond the bounds", "values outside the pool (whitespace-padded numbers: C08)"},
		PerInst: 10 * time.Minute,
	}
}
