package checks

import (
	"sort"
	"math/rand"
	"strings"
	"time"

	"gosym/vm"
)

func init() {
	register(&Check{
		ID: "C17",
		Explain: "Valid token-class templates (names, numbers, string literals, whitespace are symbolic bytes of their class) are damaged by " +
			"each operator of the statement at each applicable position: cut after an operator / slash / '[' / '(' / opening quote / comma; " +
			"delete a closing ']' / ')' / quote; rename a function or axis to a symbolic unknown name; drop required arguments; malformed " +
			"qualified names. The real Compile (scanner, parser, builder) runs symbolically on the damaged text; on every path the harness " +
			"asserts that an error and no expression is returned, so the verdict covers all contents of the remaining tokens.",
		Technique: "concolic symbolic execution of go/ssa (scanner/parser/builder on symbolic bytes) with SMT-decided path exploration; rejection asserted on every path",
		Assume: []string{
			"token contents: names 1-3 bytes (first letter/_), numbers 1-3 digits, string literals 0-2 XML-legal ASCII bytes, whitespace 0-2 bytes",
			"unicode.Is / IsSpace / IsDigit on ASCII evaluated natively per code point",
		},
		Build: buildC17,
	})
}

// valid templates (pieces separated by spaces)
var c17Valid = []string{
	"N1", "N1 W1 / W2 N2", "/ N1", "// N1", "N1 // N2", "N1 [ W1 N2 W2 ]", "N1 [ D1 ]", "N1 [ N2 W1 = W2 S1 ]", "N1 [ @ N2 = S1 ]",
	"@ N1", ". / N1", ".. / N1", "N1 / @ N2", "child :: N1", "descendant :: N1 / N2", "N1 | N2", "( N1 | N2 ) / N3",
	"D1 W1 + W2 D2", "D1 * D2", "N1 w1 div w2 D1", "N1 w1 mod w2 D1", "D1 - D2", "- D1", "N1 w1 and w2 N2", "N1 w1 or w2 N2",
	"N1 W1 = W2 D1", "N1 != S1", "N1 < D1", "N1 <= D1", "N1 > D1", "N1 >= D1",
	"count ( N1 )", "count ( N1 / N2 ) > D1", "sum ( N1 )", "not ( N1 )", "concat ( S1 , W1 S2 )", "concat ( S1 , S2 , N1 )", "contains ( N1 , S1 )",
	"starts-with ( N1 , S1 )", "substring ( S1 , D1 )", "substring ( S1 , D1 , D2 )", "substring-before ( N1 , S1 )", "translate ( N1 , S1 , S2 )",
	"string-length ( N1 )", "normalize-space ( N1 )", "floor ( D1 )", "ceiling ( D1 )", "round ( D1 )", "boolean ( N1 )", "number ( N1 )", "string ( N1 )",
	"string-join ( N1 , S1 )", "matches ( N1 , 'a' )", "replace ( N1 , 'a' , S1 )", "lower-case ( N1 )", "reverse ( N1 )",
	"N1 [ position ( ) = D1 ]", "N1 [ last ( ) ]", "N1 [ not ( N2 ) ] [ D1 ]", "N1 [ N2 [ N3 ] ]", "( N1 ) [ D1 ]", "N1 / ( N2 , N3 )",
	"( D1 )", "( S1 )", "D1 + ( D2 )", "N1 = ( S1 )", "count ( N1 ) > ( D1 )", "( ( D1 ) )", "- ( D1 )", "N1 [ ( D1 ) ]", "concat ( ( S1 ) , S2 )",
	"N1 [ count ( N2 ) = D1 w1 and w2 @ N3 ]", "// N1 [ @ N2 = S1 ] / N3", "N1 / text ( )", "N1 / node ( )", "comment ( )", "N1 : N2", "N1 : N2 / N3 : N1",
}

// required argument counts (XPath 1.0 / 2.0 signatures of the supported functions)
var c17MinArgs = map[string]int{
	"count": 1, "sum": 1, "not": 1, "concat": 2, "contains": 2, "starts-with": 2, "ends-with": 2, "substring": 2, "substring-before": 2, "substring-after": 2,
	"translate": 3, "floor": 1, "ceiling": 1, "round": 1, "boolean": 1, "string-join": 2, "matches": 2, "replace": 3, "lower-case": 1, "reverse": 1,
}

func rejectInst(tpl, kind string) *vm.Instance {
	return &vm.Instance{ID: kind + ": " + tpl, Harness: "H_reject", Params: map[string]string{"tpl": tpl}}
}

func buildC17(tier string, seed int64) *Family {
	r := rand.New(rand.NewSource(seed))
	var insts []*vm.Instance
	isOp := func(p string) bool {
		switch p {
		case "+", "-", "*", "div", "mod", "and", "or", "=", "!=", "<", "<=", ">", ">=", "|":
			return true
		}
		return false
	}
	for _, tpl := range c17Valid {
		ps := strings.Fields(tpl)
		for i, p := range ps {
			prefix := strings.Join(ps[:i+1], " ")
			switch {
			case isOp(p) && i > 0:
				insts = append(insts, rejectInst(prefix, "cut-after-operator"))
			case (p == "/" || p == "//") && i > 0:
				insts = append(insts, rejectInst(prefix, "cut-after-slash"))
			case p == "//" && i == 0:
				insts = append(insts, rejectInst(prefix, "cut-after-slash"))
			case p == "[":
				insts = append(insts, rejectInst(prefix, "cut-after-bracket"))
			case p == "(":
				insts = append(insts, rejectInst(prefix, "cut-after-paren"))
			case p == ",":
				insts = append(insts, rejectInst(prefix, "cut-after-comma"))
			case p == "::" || p == "@" || p == ":":
				insts = append(insts, rejectInst(prefix, "cut-after-axis"))
			}
			// delete a closing bracket / parenthesis
			if p == "]" || p == ")" {
				del := append(append([]string{}, ps[:i]...), ps[i+1:]...)
				insts = append(insts, rejectInst(strings.Join(del, " "), "delete-closing-"+p))
			}
			// string literal: cut after the opening quote, delete the closing quote
			if len(p) == 2 && p[0] == 'S' {
				for _, q := range []string{"'", "\""} {
					body := "X" + p[1:] // free content without the quote byte
					_ = body
					cut := append(append([]string{}, ps[:i]...), q)
					insts = append(insts, rejectInst(strings.Join(cut, " "), "cut-after-opening-quote"))
					open := append(append(append([]string{}, ps[:i]...), q+"ab"), ps[i+1:]...)
					insts = append(insts, rejectInst(strings.Join(open, " "), "delete-closing-quote"))
				}
			}
			// function renamed to an unknown (symbolic) name; required arguments dropped
			isFuncName := len(p) > 2 && p[0] >= 'a' && p[0] <= 'z'
			if i+1 < len(ps) && ps[i+1] == "(" && isFuncName && p != "text" && p != "node" && p != "comment" && p != "position" && p != "last" {
				ren := append(append(append([]string{}, ps[:i]...), "N9"), ps[i+1:]...)
				in := rejectInst(strings.Join(ren, " "), "rename-function")
				in.Params["notfunc"] = "N9"
				insts = append(insts, in)
				if min, ok := c17MinArgs[p]; ok {
					// find the matching ')' and keep only the first (min-1) arguments
					depth, end := 0, -1
					var commas []int
					for k := i + 1; k < len(ps); k++ {
						if ps[k] == "(" {
							depth++
						} else if ps[k] == ")" {
							depth--
							if depth == 0 {
								end = k
								break
							}
						} else if ps[k] == "," && depth == 1 {
							commas = append(commas, k)
						}
					}
					if end > 0 {
						var cutAt int
						if min-1 == 0 {
							cutAt = i + 2
						} else if len(commas) >= min-1 {
							cutAt = commas[min-2]
						} else {
							cutAt = -1
						}
						if cutAt > 0 {
							drop := append(append([]string{}, ps[:cutAt]...), ps[end:]...)
							insts = append(insts, rejectInst(strings.Join(drop, " "), "drop-required-arguments"))
						}
					}
				}
			}
			// unknown axis
			if p == "::" && i > 0 {
				ax := append(append(append([]string{}, ps[:i-1]...), "N9"), ps[i:]...)
				insts = append(insts, rejectInst(strings.Join(ax, " "), "unknown-axis"))
			}
		}
	}
	// malformed qualified names
	for _, t := range []string{"N1 :", ": N1", "N1 : N2 : N3", "N1 : w1 N2", "N1 / N2 :", "N1 [ N2 : ]", "@ N1 :", "N1 : : N2", "N1 :: : N2", "count ( N1 : )",
		"N1 w1 : N2", "N1 w1 : *", "// N1 w1 : N2", "N1 / N2 w1 : N3", "N1 [ @ N2 w1 : N3 = S1 ]", "count ( // N1 w1 : N2 ) > D1", "N1 w1 : w2 N2", "@ N1 w1 : N2",
		// the local part is not an NCName: it starts with a digit, '-' or '.'
		"N1 : D1", "N1 : D1 N2", "N1 : - N2", "N1 : . N2", "N1 : D1 N2 / N3", "// N1 : D1", "N1 [ N2 : D1 ]", "@ N1 : D1", "count ( N1 : - N2 )", "N1 / N2 : . N3", "N1 : D1 : N2"} {
		insts = append(insts, rejectInst(t, "malformed-qname"))
	}
	insts = dedupInst(insts)
	if tier != "thorough" && len(insts) > 260 {
		r.Shuffle(len(insts), func(i, j int) { insts[i], insts[j] = insts[j], insts[i] })
		// keep every damage class represented
		var keep []*vm.Instance
		per := map[string]int{}
		for _, in := range insts {
			k := in.ID[:strings.Index(in.ID, ":")]
			if per[k] < 30 {
				per[k]++
				keep = append(keep, in)
			}
		}
		insts = keep
	}
	// builder-level damage (unknown function, unknown axis, missing required arguments)
	// placed under every kind of parent node: the error must surface whatever wraps it
	bases := []string{"N9 ( N1 )", "count ( )", "substring ( N1 )", "N9 :: N1", "N9 :: N1 / N2", "N2 / N9 :: N1"}
	wraps := []string{"( X )", "( ( X ) )", "X / N8", "X | N8", "N8 | X", "count ( X )", "N8 [ X ]", "X = D7", "D7 = X", "- X", "( X ) [ D7 ]", "X or N8", "N8 and X",
		"X + D7", "concat ( N8 , X )", "N8 [ X = S7 ]", "( X | N8 )", "( X ) / N8", "N8 [ D7 ] [ X ]", "not ( X )"}
	for i, b := range bases {
		for j, w := range wraps {
			if tier != "thorough" && (i+j)%2 != 0 && j > 1 {
				continue
			}
			if (w == "X / N8" || w == "( X ) / N8") && !strings.Contains(b, "::") {
				continue // a function call followed by '/' is a different damage
			}
			in := rejectInst(strings.Replace(w, "X", b, 1), "nested-builder-damage")
			in.Params["tokmax"] = "2"
			if strings.HasPrefix(b, "N9 (") {
				in.Params["notfunc"] = "N9"
			}
			insts = append(insts, in)
		}
	}
	// the same damage in every argument position of the functions with several arguments
	multi := map[string]int{"concat": 3, "contains": 2, "starts-with": 2, "ends-with": 2, "substring-before": 2, "substring-after": 2, "substring": 3, "translate": 3, "replace": 3, "matches": 2, "string-join": 2}
	var fnames []string
	for f := range multi {
		fnames = append(fnames, f)
	}
	sort.Strings(fnames)
	for fi, f := range fnames {
		for pos := 0; pos < multi[f]; pos++ {
			for bi, b := range []string{"N9 ( N1 )", "N9 :: N1"} {
				if tier != "thorough" && (fi+pos+bi)%2 != 0 {
					continue
				}
				args := make([]string, multi[f])
				for i := range args {
					args[i] = "N8"
					if f == "substring" && i > 0 {
						args[i] = "D7"
					}
					if (f == "translate" || f == "replace" || f == "matches") && i > 0 {
						args[i] = "'a'"
					}
				}
				args[pos] = b
				in := rejectInst(f+" ( "+strings.Join(args, " , ")+" )", "nested-builder-damage")
				in.Params["tokmax"] = "2"
				if strings.HasPrefix(b, "N9 (") {
					in.Params["notfunc"] = "N9"
				}
				insts = append(insts, in)
			}
		}
	}
	insts = dedupInst(insts)
	can := rejectInst("N1 [ N2 ]", "canary valid template")
	return &Family{
		Instances: insts,
		Canaries:  []*vm.Instance{can},
		Bounds: map[string]interface{}{
			"valid_templates": len(c17Valid), "token_contents": "names 1-3 bytes, numbers 1-3 digits, string literals 0-2 bytes, whitespace 0-2 bytes (all symbolic)",
		},
		Rule: "instance = one damaged template (damage class x template x position); case = explored symbolic path over the token contents; non-trivial = the text reached the parser",
		Outside: []string{"tokens longer than the bounds", "non-ASCII names", "damage classes not listed in the statement"},
		PerInst: 3 * time.Minute,
	}
}
