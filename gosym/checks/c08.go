package checks

import (
	"fmt"
	"math/rand"
	"strings"
	"time"

	"gosym/vm"
)

func init() {
	register(&Check{
		ID: "C08",
		Explain: "Each instance is an arithmetic expression tree over + - * div, unary minus, mod (on its stated domain), floor, ceiling, " +
			"number(), count(), sum(), string-length() and string(); numeric leaves are symbolic doubles (any IEEE value) or functions of flat " +
			"paths over a symbolic document with numeric / non-numeric node values. Evaluate runs symbolically; on every path the solver " +
			"decides that the returned float64 is the same IEEE-754 double as the reference term (NaN = NaN, +0 != -0), and for string() of " +
			"NaN or an integer below 10^6 in magnitude that the text is the plain decimal integer.",
		Technique: "concolic symbolic execution of go/ssa + SMT (z3, FloatingPoint + BitVec) per-path value obligation against a reference XPath semantics",
		Assume: []string{
			"Go float64 arithmetic is IEEE-754 binary64 round-to-nearest-even (SMT FloatingPoint RNE); math.Floor/Ceil = roundToIntegral RTN/RTP",
			"strconv.ParseFloat / FormatFloat are trusted std code: applied natively to concrete pool values; FormatFloat of a symbolic double is modelled only for NaN and integers below 10^6",
			"sum() is claimed over numeric nodes only (dyadic pool values, so summation order does not matter)",
		},
		Build: buildC08,
	})
}

func c08Inst(text string, cfg docCfg, holes map[string]string) *vm.Instance {
	in := valueInst(text, cfg)
	for k, v := range holes {
		if strings.Contains(text, "900"+k[1:]) {
			in.Params["hole."+k] = v
		}
	}
	return in
}

func buildC08(tier string, seed int64) *Family {
	r := rand.New(rand.NewSource(seed))
	cfg := docCfg{N: 3, A: 1, Names: "a,b", Pool: ",1,2,-1,1.5,x"}
	numCfg := docCfg{N: 3, A: 1, Names: "a,b", Pool: "0,1,2,-1,1.5"} // every node value numeric (sum)
	nSeed := 80
	if tier == "thorough" {
		cfg = docCfg{N: 4, A: 1, Names: "a,b", Pool: ",0,1,2,10,-1,1.5,x,1x,-0.5, 1 ,1e3,+1,inf,.5,1."}
		numCfg = docCfg{N: 4, A: 1, Names: "a,b", Pool: "0,1,2,10,-1,1.5,-0.5,0.25"}
		nSeed = 600
	}
	modHoles := map[string]string{"h5": "int:0:1000000", "h6": "int:1:1000000"}
	strHoles := map[string]string{"h7": "int:-999999:999999"}
	var insts []*vm.Instance
	add := func(t string) { insts = append(insts, c08Inst(t, cfg, nil)) }
	leaves := []string{"9001", "9002", "count(*)", "count(//a)", "number(a)", "number(@a)", "string-length(a)", "number('1.5')", "number('x')", "number(*)", "2", "0.5"}
	bin := []string{"+", "-", "*", "div"}
	// depth <= 2 over all operators
	for _, op := range bin {
		for _, l := range leaves[:8] {
			for _, rr := range leaves[:8] {
				if l == rr && strings.HasPrefix(l, "900") {
					rr = "9003"
				}
				add(l + " " + op + " " + rr)
			}
		}
	}
	for _, l := range leaves {
		add("-" + l)
		add("--" + l)
		add("floor(" + l + ")")
		add("ceiling(" + l + ")")
		add("number(" + l + ")")
		add("-(" + l + " + 1)")
		add("floor(" + l + " div 2)")
		add("ceiling(-" + l + ")")
	}
	add("9001")
	add("1 div 0")
	add("-1 div 0")
	add("0 div 0")
	add("9001 div 0")
	add("9001 * 0")
	add("(1 div 0) - (1 div 0)")
	add("number(//a) + number(//b)")
	add("count(a | @a)")
	add("count(a) + count(@*) * 2")
	// operand independence: an operand whose path carries a predicate must not move the
	// context node seen by the operands evaluated after it
	filt := []string{"count(*[1])", "count(a[@a])", "count(*[. = 1])", "number(*[2])", "string-length(*[1])", "count(*[a])", "count(//a[1])", "number(*[last()])", "count(following::*)", "count(preceding::a)"}
	plain := []string{"count(*)", "number(a)", "count(@*)", "string-length(.)"}
	for i, f := range filt {
		for j, q := range plain {
			op := bin[(i+j)%len(bin)]
			add(f + " " + op + " " + q)
			if (i+j)%2 == 0 {
				add(q + " " + op + " " + f)
				add("floor(" + f + ") + ceiling(" + q + ")")
			}
		}
	}
	// unparenthesised chains: the value depends on left associativity and on * div mod
	// binding tighter than + -
	chainOps := []string{"+", "-", "*", "div"}
	for _, o1 := range chainOps {
		for _, o2 := range chainOps {
			add("9001 " + o1 + " 9002 " + o2 + " 9003")
		}
	}
	for _, t := range []string{"count(*) - count(//a) - 1", "8 div count(*) div 2", "number(a) - 1 - 1", "9001 - 9002 + 9003 - 9004", "9001 div 9002 * 9003 div 9004", "-9001 - -9002 - 9003",
		"2 * 3 div 4 * 5", "1 - 2 - 3 - 4", "64 div 2 div 2 div 2"} {
		add(t)
	}
	for _, t := range []string{"100 * 7 mod 3", "9005 * 2 mod 7", "7 mod 4 mod 2", "17 mod 9006 mod 2"} {
		insts = append(insts, c08Inst(t, cfg, map[string]string{"h5": "int:0:60", "h6": "int:1:9"}))
	}
	// lexical forms of numbers in the document (XPath Number: digits with an optional
	// fraction, either part may be missing; an optional minus; surrounding whitespace)
	lexCfg := docCfg{N: 3, A: 1, Names: "a,b", Pool: ".5,-.5,5., 1 ,+1,1e1,0x1,--1,1.5.,.,-,1 2"}
	for _, t := range []string{"number(a)", "number(@a)", "a + 0", "-a", "number(*) * 2", "floor(a)", "string(number(a))", "a div 1", "number(.)", "count(*[. > 0])"} {
		in := c08Inst(t, lexCfg, nil)
		in.ID += " lexical"
		insts = append(insts, in)
	}
	// number() / string() without argument: the context node, whatever its kind
	for _, t := range []string{"number()", "number() + 1", "count(*[number() > 0])", "count(@*[number() >= 1])", "count(text()[number() > 0])", "floor(number())", "sum(*) + number()", "count(//@*[number() = 1]) + count(//text()[number() = 1])"} {
		insts = append(insts, c08Inst(t, numCfg, nil))
	}
	for _, t := range []string{"string()", "string-length(string())", "concat(string(), '|', 9007)"} {
		insts = append(insts, c08Inst(t, numCfg, strHoles))
	}
	add(".5 + 9001")
	add(".25 * 4")
	add("9001 - .125")
	add("5. div .5")
	add("count(*[1]) + count(*[2]) + count(*)")
	add("-count(*[1]) + count(*)")
	add("string-length('#S1')")
	add("string-length(concat(a, '#S1'))")
	add("string-length(string(a))")
	// mod on its domain
	for _, t := range []string{"9005 mod 9006", "count(*) mod 9006", "9005 mod (count(*) + 1)", "string-length(a) mod 2", "(9005 mod 9006) + 1", "count(//*) mod (string-length(a) + 1)"} {
		insts = append(insts, c08Inst(t, cfg, modHoles))
	}
	// sum over numeric nodes
	for _, t := range []string{"sum(*)", "sum(a)", "sum(@*)", "sum(//a)", "sum(a | @a)", "sum(*) + 9001", "sum(a/a)", "sum(*[. > 0])", "floor(sum(*))", "sum(*) div count(*)", "sum(//@a) * 2", "sum(*) div count(*) div 2", "sum(*) - sum(a) - 1"} {
		insts = append(insts, c08Inst(t, numCfg, nil))
	}
	// string() of numbers: NaN and integers below 10^6
	for _, t := range []string{"string(9007)", "string(-9007)", "string(0 div 0)", "string(number('x'))", "string(count(*))", "string(9007 + 1)", "string(9007 * -1)", "string(0 * 9007)", "string(floor(9001))", "string(string-length(a))", "concat(9007, '')", "string(number(a))"} {
		insts = append(insts, c08Inst(t, cfg, strHoles))
	}
	// concrete literal probes of string(): non-integers, many digits, tiny and huge magnitudes
	for _, t := range []string{"string(123456.789)", "string(1 div 3)", "string(0.1 + 0.2)", "string(0.00001)", "string(1.5)", "string(-0.25)", "string(100000 * 100000)",
		"string(1 div 0)", "string(-1 div 0)", "string(0.000001234)", "string(999999.999999)", "string(2 div 3 * 1000)", "string(12345678.9)", "string(.5)", "string(5.)",
		"concat(1 div 3, '')", "string-length(string(1 div 3))", "string(number('0.1') * 3)", "string(1e0)"} {
		if t == "string(1e0)" {
			continue
		}
		insts = append(insts, c08Inst(t, numCfg, nil))
	}
	// seeded deeper trees (depth 3-4)
	var gen func(d int) string
	gen = func(d int) string {
		if d == 0 || r.Intn(4) == 0 {
			return pick(r, leaves)
		}
		switch r.Intn(6) {
		case 0:
			return "floor(" + gen(d-1) + ")"
		case 1:
			return "ceiling(" + gen(d-1) + ")"
		case 2:
			return "-" + gen(d-1)
		}
		return "(" + gen(d-1) + " " + pick(r, bin) + " " + gen(d-1) + ")"
	}
	for k := 0; k < nSeed; k++ {
		t := gen(3 + k%2)
		// distinct numeric holes per occurrence (up to 4)
		n := 0
		for strings.Contains(t, "9001") && n < 2 {
			t = strings.Replace(t, "9001", fmt.Sprintf("900%d", 3+n), 1)
			n++
		}
		add(t)
	}
	return &Family{
		Instances: withValueReuse(dedupInst(insts), 2),
		Canaries: []*vm.Instance{
			valueCanary("9001 - 9002", "9002 - 9001", cfg),
			valueCanary("floor(9001)", "ceiling(9001)", cfg),
			valueCanary("number(a)", "number(*)", cfg),
			valueCanary("count(*)", "count(a)", cfg),
		},
		Bounds: map[string]interface{}{
			"document_slots_N_including_root": cfg.N, "attributes_per_element_A": cfg.A, "value_pool": cfg.Pool, "numeric_only_pool_for_sum": numCfg.Pool,
			"numeric_literals": "symbolic float64 (any value)", "tree_depth": "<= 2 exhaustive over operators/leaf kinds, 3-4 seeded",
			"mod_domain": "integers 0..10^6, divisor >= 1", "string_of_number": "NaN and integers |x| < 10^6",
		},
		Rule: "instance = one arithmetic expression tree; case = explored symbolic path; non-trivial = Evaluate returned without panic",
		Outside: []string{"round()", "mod outside its stated domain", "string() of non-integers (FormatFloat digit generation not encoded; concrete literal probes only)",
			"sum() over non-numeric nodes", "node values with surrounding whitespace / exponent syntax are probed as pool members in the thorough tier"},
		PerInst: 3 * time.Minute,
	}
}
