// Package checks: per-property instance families, the parallel runner, native
// replay, known-findings handling and evidence output.
package checks

import (
	"runtime"
	"crypto/sha1"
	"encoding/json"
	"fmt"
	"os"
	"os/exec"
	"path/filepath"
	"sort"
	"strings"
	"sync"
	"time"

	"gosym/sym"
	"gosym/vm"
)

// RepoDir is /repo; GOSYM_REPO_DIR points the same checks at a scratch worktree
// of it (used only to evaluate seeded changes without touching /repo).
var RepoDir = repoDir()

func repoDir() string {
	if d := os.Getenv("GOSYM_REPO_DIR"); d != "" {
		return d
	}
	return "/repo"
}

// VerifDir is /verif unless GOSYM_VERIF_DIR points at a snapshot of it (background runs).
var (
	VerifDir   = verifDir()
	HarnessDir = VerifDir + "/harness"
)

func verifDir() string {
	if d := os.Getenv("GOSYM_VERIF_DIR"); d != "" {
		return d
	}
	return "/verif"
}

func loadFactor() float64 {
	b, err := os.ReadFile("/proc/loadavg")
	if err != nil {
		return 1
	}
	var l1 float64
	fmt.Sscanf(string(b), "%f", &l1)
	f := 1 + l1/float64(runtime.NumCPU())
	if f > 6 {
		f = 6
	}
	return f
}

// Family is the set of instances explored for one property at one tier.
type Family struct {
	Instances []*vm.Instance
	Canaries  []*vm.Instance // must each yield at least one violation (vacuity guard)
	Bounds    map[string]interface{}
	Rule      string
	Outside   []string // what lies outside the claim
	Race      bool     // native replays run under the race detector
	BudgetIsViolation bool // a path that exhausts the step budget is a non-termination candidate
	PerInst   time.Duration
}

type Check struct {
	ID        string
	Build     func(tier string, seed int64) *Family
	Assume    []string
	Explain   string
	Technique string
}

var Registry = map[string]*Check{}

// Only restricts a run to instances whose ID contains the substring (debugging);
// several substrings are separated by "||".
var Only string

func containsAny(s string, subs []string) bool {
	for _, x := range subs {
		if strings.Contains(s, x) {
			return true
		}
	}
	return false
}

func register(c *Check) { Registry[c.ID] = c }

// InstResult is the outcome of exploring one instance.
type InstResult struct {
	Inst      *vm.Instance
	Stats     vm.Stats
	Viol      []vm.Violation
	Samples   []Sample
	Queries   int
	NSat      int
	NUnsat    int
	NUnknown  int
	SolverS   float64
	WallS     float64
	Errors    []string
	Restarts  int // solver processes that died under a query of this instance and were replaced
	Called    map[string]int
	Stubs     map[string]int
	Nontriv   int
	ValModels []vm.Violation // feasibility witnesses (not violations) for native validation
}

type Sample struct {
	Instance string            `json:"instance"`
	Params   map[string]string `json:"params,omitempty"`
	PCSize   int               `json:"path_condition_literals"`
	Inputs   map[string]string `json:"model_inputs"`
	Observed []vm.Observation  `json:"observed"`
}

type Runner struct {
	Prog     *vm.Program
	Workers  int
	Solver   string
	QueryMs  int
	Tier     string
	Seed     int64
	Verbose  bool
	MaxPaths int
	BudgetIsViolation bool
}

func (r *Runner) runOne(ex *vm.Explorer, inst *vm.Instance, perInst time.Duration) *InstResult {
	res := &InstResult{Inst: inst}
	t0 := time.Now()
	s := ex.S
	so := ex.SO
	q0, s0, u0, k0, st0 := s.Queries+so.Queries, s.NSat+so.NSat, s.NUnsat+so.NUnsat, s.NUnknown+so.NUnknown, s.SolveTime+so.SolveTime
	e0, eo0 := len(s.Errors), len(so.Errors)
	rs0 := s.Restarts + so.Restarts
	if perInst > 0 {
		ex.Deadline = time.Now().Add(perInst)
	} else {
		ex.Deadline = time.Time{}
	}
	ex.MaxPaths = r.MaxPaths
	ex.BudgetViolations = r.BudgetIsViolation
	valEvery := 0
	ex.OnPath = func(e *vm.Explorer, rep *vm.PathReport) {
		if rep.Outcome != vm.PathOK {
			return
		}
		havoc := false
		for k := range e.M.Stubs {
			if strings.HasPrefix(k, "havoc:") {
				havoc = true
			}
		}
		if rep.PS.Flags["nontrivial"] {
			res.Nontriv++
			if havoc {
				return // values of uninterpreted stubs are not reproducible natively
			}
			// keep a few feasibility witnesses for native validation
			valEvery++
			if len(res.ValModels) < 2 && valEvery%7 == 1 {
				res.ValModels = append(res.ValModels, vm.Violation{Instance: inst, Inputs: rep.PS.Inputs, Order: rep.PS.InputOrder, Observed: rep.PS.Observations})
			}
		}
	}
	ex.Explore(inst)
	res.Stats = ex.Stats
	res.Viol = ex.Viol
	for _, sm := range ex.Samples {
		res.Samples = append(res.Samples, Sample{Instance: inst.ID, PCSize: len(sm.PC), Inputs: sm.PS.Inputs, Observed: sm.PS.Observations})
	}
	res.Queries, res.NSat, res.NUnsat, res.NUnknown = s.Queries+so.Queries-q0, s.NSat+so.NSat-s0, s.NUnsat+so.NUnsat-u0, s.NUnknown+so.NUnknown-k0
	res.SolverS = (s.SolveTime + so.SolveTime - st0).Seconds()
	res.Errors = append(res.Errors, s.Errors[e0:]...)
	res.Errors = append(res.Errors, so.Errors[eo0:]...)
	res.Restarts = s.Restarts + so.Restarts - rs0
	res.WallS = time.Since(t0).Seconds()
	res.Called = ex.M.Called
	res.Stubs = ex.M.Stubs
	ex.M.Called = nil
	ex.M.Stubs = nil
	return res
}

// RunAll explores every instance on r.Workers workers.
func (r *Runner) RunAll(insts []*vm.Instance, perInst time.Duration) []*InstResult {
	out := make([]*InstResult, len(insts))
	var wg sync.WaitGroup
	ch := make(chan int)
	var mu sync.Mutex
	done := 0
	for w := 0; w < r.Workers; w++ {
		wg.Add(1)
		go func() {
			defer wg.Done()
			s, err := sym.NewSolverOpt(r.Solver, sym.NewCtx(), r.QueryMs, true)
			if err != nil {
				panic(err)
			}
			defer s.Close()
			so, err := sym.NewSolverOpt(r.Solver, sym.NewCtx(), r.QueryMs, false)
			if err != nil {
				panic(err)
			}
			defer so.Close()
			if lp := os.Getenv("GOSYM_SMTLOG"); lp != "" {
				f, _ := os.Create(lp)
				so.Log = f
			}
			// fault injection (testing the restart path only): kill each solver process
			// before every n-th exchange
			if fk := os.Getenv("GOSYM_FAULT_KILL_EVERY"); fk != "" {
				fmt.Sscanf(fk, "%d", &s.KillEvery)
				so.KillEvery = s.KillEvery
			}
			ex := vm.NewExplorer(r.Prog, s)
			ex.SO = so
			for i := range ch {
				out[i] = r.runOne(ex, insts[i], perInst)
				mu.Lock()
				done++
				if r.Verbose {
					o := out[i]
					fmt.Fprintf(os.Stderr, "[%d/%d] %s paths=%d viol=%d incomplete=%v %.1fs\n", done, len(insts), insts[i].ID, o.Stats.Paths, len(o.Viol), o.Stats.Incomplete, o.WallS)
				}
				mu.Unlock()
			}
		}()
	}
	for i := range insts {
		ch <- i
	}
	close(ch)
	wg.Wait()
	return out
}

// ---- native replay ----

type ReplayCase struct {
	ID      string            `json:"id"`
	Harness string            `json:"harness"`
	Params  map[string]string `json:"params"`
	Inputs  map[string]string `json:"inputs"`
}

type ReplayResult struct {
	ID           string           `json:"id"`
	Observations []vm.Observation `json:"observations"`
	Failed       []string         `json:"failed_asserts"`
	Escaped      string           `json:"escaped_panic"`
	AssumeFailed bool             `json:"assume_failed"`
}

// ReplayFile is what is written under /verif/replays for a violation.
type ReplayFile struct {
	Property  string           `json:"property"`
	Key       string           `json:"key"`
	Label     string           `json:"label"`
	Info      string           `json:"info"`
	Case      ReplayCase       `json:"case"`
	Predicted []vm.Observation `json:"predicted_observations"`
	Race      bool             `json:"race,omitempty"`
}

// ReplayTimeout is the go test deadline of a native replay.
var ReplayTimeout = "20m"

// NativeReplay runs cases against the natively compiled package (with the
// harness overlay) and returns what the real code did.
func NativeReplay(prog *vm.Program, cases []ReplayCase, race bool) ([]ReplayResult, string, error) {
	if len(cases) == 0 {
		return nil, "", nil
	}
	tmp, err := os.MkdirTemp("", "gosym-replay-")
	if err != nil {
		return nil, "", err
	}
	defer os.RemoveAll(tmp)
	ents, err := os.ReadDir(HarnessDir)
	if err != nil {
		return nil, "", err
	}
	ov := map[string]map[string]string{"Replace": {}}
	for _, e := range ents {
		if strings.HasSuffix(e.Name(), ".go") {
			ov["Replace"][filepath.Join(RepoDir, "zz_verif_"+e.Name())] = filepath.Join(HarnessDir, e.Name())
		}
	}
	ovb, _ := json.Marshal(ov)
	ovPath := filepath.Join(tmp, "overlay.json")
	os.WriteFile(ovPath, ovb, 0o644)
	in, out := filepath.Join(tmp, "in.json"), filepath.Join(tmp, "out.json")
	cb, _ := json.Marshal(cases)
	os.WriteFile(in, cb, 0o644)
	args := []string{"test", "-tags", "verif", "-overlay", ovPath, "-vet=off", "-count=1", "-run", "^TestVerifReplay$", "-timeout", ReplayTimeout}
	if race {
		args = append(args, "-race")
	}
	args = append(args, ".")
	cmd := exec.Command("go", args...)
	cmd.Dir = RepoDir
	cmd.Env = append(os.Environ(), "GOFLAGS=-mod=mod", "GOPROXY=off", "GOSUMDB=off", "GOTOOLCHAIN=local",
		"VERIF_REPLAY_IN="+in, "VERIF_REPLAY_OUT="+out, "GOCACHE="+goCache())
	outb, err := cmd.CombinedOutput()
	log := string(outb)
	data, rerr := os.ReadFile(out)
	if rerr != nil {
		return nil, log, fmt.Errorf("native replay produced no output: %v\n%s", err, log)
	}
	var res []ReplayResult
	if jerr := json.Unmarshal(data, &res); jerr != nil {
		return nil, log, jerr
	}
	return res, log, nil
}

func goCache() string {
	if c := os.Getenv("GOCACHE"); c != "" {
		return c
	}
	out, err := exec.Command("go", "env", "GOCACHE").Output()
	if err == nil {
		return strings.TrimSpace(string(out))
	}
	return filepath.Join(os.TempDir(), "gocache")
}

func sameObs(a, b []vm.Observation) bool {
	if len(a) != len(b) {
		return false
	}
	for i := range a {
		if a[i] != b[i] {
			return false
		}
	}
	return true
}

func caseOf(id string, v vm.Violation) ReplayCase {
	return ReplayCase{ID: id, Harness: v.Instance.Harness, Params: v.Instance.Params, Inputs: v.Inputs}
}

// violationKey identifies a violation: normally harness|instance|obligation;
// when the obligation names a call site ("site=...") the site replaces the
// instance, so that one defect reached through many expressions is one finding
// while a different site is still a different finding.
func violationKey(v vm.Violation) string {
	if strings.HasPrefix(v.Info, "site=") {
		return v.Instance.Harness + "|" + v.Label + "|" + v.Info
	}
	return v.Instance.Harness + "|" + v.Instance.ID + "|" + v.Label
}

func shortHash(s string) string {
	h := sha1.Sum([]byte(s))
	return fmt.Sprintf("%x", h[:6])
}

// ---- known findings ----

type Known struct {
	Property string
	Key      string
	Desc     string
}

func LoadKnown() ([]Known, error) {
	data, err := os.ReadFile(filepath.Join(VerifDir, "known_findings.txt"))
	if os.IsNotExist(err) {
		return nil, nil
	}
	if err != nil {
		return nil, err
	}
	var out []Known
	for _, line := range strings.Split(string(data), "\n") {
		line = strings.TrimSpace(line)
		if !strings.HasPrefix(line, "known:") {
			continue // comments and "fixed:" entries suppress nothing
		}
		rest := strings.TrimSpace(strings.TrimPrefix(line, "known:"))
		var k Known
		// known: property=<id> key=<key-without-spaces> <description>
		fields := strings.SplitN(rest, " ", 3)
		if len(fields) < 2 || !strings.HasPrefix(fields[0], "property=") || !strings.HasPrefix(fields[1], "key=") {
			continue
		}
		k.Property = strings.TrimPrefix(fields[0], "property=")
		k.Key = strings.TrimPrefix(fields[1], "key=")
		if len(fields) == 3 {
			k.Desc = fields[2]
		}
		out = append(out, k)
	}
	return out, nil
}

// keyToken makes a violation key usable as a single token in the findings file.
func keyToken(k string) string { return strings.ReplaceAll(k, " ", "␠") }

// ---- evidence ----

type Evidence struct {
	PropertyID  string                 `json:"property_id"`
	Tier        string                 `json:"tier"`
	Seed        int64                  `json:"seed"`
	Level       string                 `json:"level"`
	Coverage    map[string]interface{} `json:"coverage"`
	Assumptions []string               `json:"assumptions"`
	WallS       float64                `json:"wall_s"`
	Violations  int                    `json:"violations"`
}

func writeEvidence(ev *Evidence) error {
	if Only != "" {
		// a debugging run over a subset of the instances is not a record of the check
		return nil
	}
	os.MkdirAll(filepath.Join(VerifDir, "evidence"), 0o755)
	b, err := json.MarshalIndent(ev, "", " ")
	if err != nil {
		return err
	}
	return os.WriteFile(filepath.Join(VerifDir, "evidence", ev.PropertyID+".json"), b, 0o644)
}

// Execute runs one property check end to end and returns the process exit code.
func Execute(id, tier string, seed int64, verbose bool) int {
	t0 := time.Now()
	chk := Registry[id]
	if chk == nil {
		fmt.Printf("unknown property %s\n", id)
		return 2
	}
	prog, err := vm.Load(RepoDir, HarnessDir, false)
	if err != nil {
		fmt.Printf("INCONCLUSIVE property=%s load error: %v\n", id, err)
		return 2
	}
	fam := chk.Build(tier, seed)
	if Only != "" {
		var sel []*vm.Instance
		for _, in := range fam.Instances {
			if containsAny(in.ID, strings.Split(Only, "||")) {
				sel = append(sel, in)
			}
		}
		fam.Instances = sel
		fam.Canaries = nil
	}
	workers := 16
	if w := os.Getenv("VERIF_WORKERS"); w != "" {
		fmt.Sscanf(w, "%d", &workers)
	}
	qms := 8000
	if tier == "thorough" {
		qms = 120000
	}
	// The time limits were tuned on an otherwise idle machine. Other work on the machine
	// slows every solver call down, so the limits are stretched by the load found at the
	// start (1 + runnable processes per core, at most 6x); verdicts do not depend on it,
	// only how soon a query is given up as unknown.
	lf := loadFactor()
	qms = int(float64(qms) * lf)
	if fam.PerInst > 0 {
		fam.PerInst = time.Duration(float64(fam.PerInst) * lf)
	}
	if fam.Bounds != nil {
		fam.Bounds["time_limit_stretch_for_machine_load"] = fmt.Sprintf("%.1f", lf)
	}
	r := &Runner{Prog: prog, Workers: workers, Solver: solverChoice(), QueryMs: qms, Tier: tier, Seed: seed, Verbose: verbose, MaxPaths: 400000}
	r.BudgetIsViolation = fam.BudgetIsViolation
	perInst := fam.PerInst
	if perInst == 0 {
		perInst = 5 * time.Minute
	}
	results := r.RunAll(fam.Instances, perInst)
	canRes := r.RunAll(fam.Canaries, perInst)

	known, err := LoadKnown()
	if err != nil {
		fmt.Printf("INCONCLUSIVE property=%s cannot read known findings: %v\n", id, err)
		return 2
	}
	knownKeys := map[string]Known{}
	for _, k := range known {
		if k.Property == id {
			knownKeys[k.Key] = k
		}
	}

	// aggregate
	var paths, assumeFails, aborts, obligations, held, nontriv, evaluations int
	var queries, nsat, nunsat, nunknown int
	var solverS float64
	var decisions int64
	var incompleteInst []string
	called := map[string]int{}
	stubs := map[string]int{}
	var samples []Sample
	var solverErrors []string
	restarts := 0
	var allViol []vm.Violation
	var valModels []vm.Violation
	vacuous := []string{}
	for _, res := range results {
		evaluations++
		paths += res.Stats.Paths
		assumeFails += res.Stats.AssumeFails
		aborts += res.Stats.Aborts
		obligations += res.Stats.Obligations
		held += res.Stats.ObligationsHeld
		nontriv += res.Nontriv
		queries += res.Queries
		nsat += res.NSat
		nunsat += res.NUnsat
		nunknown += res.NUnknown
		solverS += res.SolverS
		decisions += res.Stats.Decisions
		if len(res.Stats.Incomplete) > 0 && len(res.Viol) == 0 {
			incompleteInst = append(incompleteInst, res.Inst.ID+": "+strings.Join(res.Stats.Incomplete, "; "))
		}
		if res.Stats.Obligations == 0 {
			vacuous = append(vacuous, res.Inst.ID)
		}
		for k, v := range res.Called {
			called[k] += v
		}
		for k, v := range res.Stubs {
			stubs[k] += v
		}
		if len(samples) < 4 && len(res.Samples) > 0 {
			sm := res.Samples[len(res.Samples)-1]
			sm.Params = res.Inst.Params
			samples = append(samples, sm)
		}
		solverErrors = append(solverErrors, res.Errors...)
		restarts += res.Restarts
		allViol = append(allViol, res.Viol...)
		valModels = append(valModels, res.ValModels...)
	}

	// canaries: each must produce a violation
	canaryOK, canaryBad := 0, []string{}
	for _, res := range canRes {
		if len(res.Viol) > 0 {
			canaryOK++
		} else {
			canaryBad = append(canaryBad, res.Inst.ID)
		}
	}

	// monitor obligations (frame / non-interference) are not observable natively:
	// they are handled separately from behavioural violations
	var monitorViol []vm.Violation
	{
		var rest []vm.Violation
		for _, v := range allViol {
			if strings.HasPrefix(v.Label, "frame:") || strings.HasPrefix(v.Label, "non-interference:") || v.Label == "terminates" || strings.HasPrefix(v.Label, "bounded-recursion:") {
				monitorViol = append(monitorViol, v)
			} else {
				rest = append(rest, v)
			}
		}
		allViol = rest
	}
	// native replay of violations and of sampled feasibility witnesses
	var cases []ReplayCase
	for i, v := range allViol {
		cases = append(cases, caseOf(fmt.Sprintf("viol-%d", i), v))
	}
	maxVal := 24
	if tier == "thorough" {
		maxVal = 96
	}
	if len(valModels) > maxVal {
		step := len(valModels) / maxVal
		var sel []vm.Violation
		for i := 0; i < len(valModels) && len(sel) < maxVal; i += step {
			sel = append(sel, valModels[i])
		}
		valModels = sel
	}
	for i, v := range valModels {
		cases = append(cases, caseOf(fmt.Sprintf("val-%d", i), v))
	}
	native, replayLog, rerr := NativeReplay(prog, cases, fam.Race)
	if rerr != nil {
		fmt.Printf("INCONCLUSIVE property=%s native replay failed: %v\n", id, rerr)
		return 2
	}
	byID := map[string]ReplayResult{}
	for _, n := range native {
		byID[n.ID] = n
	}
	_ = replayLog
	confirmed, mismatches, validated := 0, []string{}, 0
	unconfirmedHavoc := []string{}
	newViol, knownHits := 0, map[string]bool{}
	os.RemoveAll(filepath.Join(VerifDir, "replays", id))
	os.MkdirAll(filepath.Join(VerifDir, "replays", id), 0o755)
	seenKeys := map[string]bool{}
	for i, v := range allViol {
		n := byID[fmt.Sprintf("viol-%d", i)]
		key := keyToken(violationKey(v))
		if !sameObs(n.Observations, v.Observed) {
			usesHavoc := false
			for name := range v.Inputs {
				if strings.HasPrefix(name, "havoc#") {
					usesHavoc = true
				}
			}
			for name := range v.Model {
				if strings.HasPrefix(name, "havoc#") {
					usesHavoc = true
				}
			}
			if usesHavoc {
				unconfirmedHavoc = append(unconfirmedHavoc, fmt.Sprintf("%s: the witness depends on values of an uninterpreted stub and did not reproduce natively", key))
				continue
			}
			mismatches = append(mismatches, fmt.Sprintf("%s: executor predicted %v, native run gave %v (escaped=%q)", key, v.Observed, n.Observations, n.Escaped))
			continue
		}
		// an obligation the harness itself asserts is evaluated by the native run as well:
		// it must fail there too (oracle obligations "<key>:set/bool/number/string" exist only in the executor)
		oracleOb := strings.HasSuffix(v.Label, ":set") || strings.HasSuffix(v.Label, ":bool") || strings.HasSuffix(v.Label, ":number") || strings.HasSuffix(v.Label, ":string")
		if !oracleOb {
			failedNatively := false
			for _, f := range n.Failed {
				if f == v.Label {
					failedNatively = true
				}
			}
			if !failedNatively {
				mismatches = append(mismatches, fmt.Sprintf("%s: the executor's model falsifies the harness assertion but the native run satisfies it (inputs %v)", key, v.Inputs))
				continue
			}
		}
		confirmed++
		if seenKeys[key] {
			continue
		}
		seenKeys[key] = true
		rf := ReplayFile{Property: id, Key: key, Label: v.Label, Info: v.Info, Case: caseOf(key, v), Predicted: v.Observed, Race: fam.Race}
		b, _ := json.MarshalIndent(rf, "", " ")
		path := filepath.Join(VerifDir, "replays", id, shortHash(key)+".json")
		os.WriteFile(path, b, 0o644)
		if k, ok := knownKeys[key]; ok {
			knownHits[key] = true
			fmt.Printf("KNOWN-FINDING: property=%s %s (%s)\n", id, k.Desc, key)
			continue
		}
		newViol++
		fmt.Printf("VIOLATION property=%s replay=%s\n", id, path)
		fmt.Printf("  instance: %s\n  obligation: %s\n  detail: %s %s\n", v.Instance.ID, v.Label, v.Info, strings.Join(v.Notes, "; "))
	}
	for i, v := range valModels {
		n := byID[fmt.Sprintf("val-%d", i)]
		if sameObs(n.Observations, v.Observed) {
			validated++
		} else {
			mismatches = append(mismatches, fmt.Sprintf("validation %s: executor predicted %v, native run gave %v (escaped=%q)", v.Instance.ID, v.Observed, n.Observations, n.Escaped))
		}
	}

	// frame condition (C04): a value-changing store to shared state. It is the
	// inductive half of the claim; alone it is not a behavioural counterexample, so
	// the instance is re-explored with a longer history to look for one.
	frameFindings := []string{}
	unconfirmed := []string{}
	seenMon := map[string]bool{}
	var deepen []*vm.Instance
	for _, v := range monitorViol {
		key := keyToken(violationKey(v))
		if seenMon[key] {
			continue
		}
		seenMon[key] = true
		if strings.HasPrefix(v.Label, "frame:") {
			frameFindings = append(frameFindings, v.Instance.ID+": "+v.Info)
			fmt.Printf("FRAME-CONDITION property=%s instance=%q shared state modified: %s\n", id, v.Instance.ID, v.Info)
			d := *v.Instance
			d.Params = map[string]string{}
			for k, val := range v.Instance.Params {
				d.Params[k] = val
			}
			d.Params["steps"] = "3"
			d.ID = v.Instance.ID + " (history 3)"
			deepen = append(deepen, &d)
			continue
		}
		// non-interference (C05): replay the witness from 4 goroutines under the race detector;
		// non-termination candidates: replay alone, the test deadline is the judge
		rc := caseOf(key, v)
		ReplayTimeout = "20m"
		if v.Label == "terminates" {
			ReplayTimeout = "20s"
		}
		nres, rlog, err := NativeReplay(prog, []ReplayCase{rc}, strings.HasPrefix(v.Label, "non-interference:"))
		ReplayTimeout = "20m"
		raced := strings.Contains(rlog, "DATA RACE")
		failed := err != nil
		if v.Label == "terminates" {
			failed = strings.Contains(rlog, "test timed out")
			raced = false
		}
		if strings.HasPrefix(v.Label, "bounded-recursion:") {
			// confirmed when the deeply nested input is accepted, or exhausts the (reduced) stack
			raced = false
			failed = strings.Contains(rlog, "stack overflow") || strings.Contains(rlog, "goroutine stack exceeds")
			for _, n := range nres {
				for _, f := range n.Failed {
					if f == "deep-nesting-rejected" {
						failed = true
					}
				}
			}
		}
		for _, n := range nres {
			if len(n.Failed) > 0 || n.Escaped != "" {
				failed = true
			}
		}
		if raced || failed {
			confirmed++
			rf := ReplayFile{Property: id, Key: key, Label: v.Label, Info: v.Info, Case: rc, Predicted: v.Observed, Race: true}
			b, _ := json.MarshalIndent(rf, "", " ")
			path := filepath.Join(VerifDir, "replays", id, shortHash(key)+".json")
			os.WriteFile(path, b, 0o644)
			if k, ok := knownKeys[key]; ok {
				knownHits[key] = true
				fmt.Printf("KNOWN-FINDING: property=%s %s (%s)\n", id, k.Desc, key)
				continue
			}
			newViol++
			fmt.Printf("VIOLATION property=%s replay=%s\n", id, path)
			fmt.Printf("  instance: %s\n  obligation: %s\n  detail: %s\n  race detector: %v\n", v.Instance.ID, v.Label, v.Info, raced)
		} else {
			unconfirmed = append(unconfirmed, v.Instance.ID+": "+v.Info)
		}
	}
	if len(deepen) > 0 {
		dres := r.RunAll(deepen, perInst)
		var dv []vm.Violation
		for _, res := range dres {
			for _, v := range res.Viol {
				if !strings.HasPrefix(v.Label, "frame:") {
					dv = append(dv, v)
				}
			}
		}
		var dcases []ReplayCase
		for i, v := range dv {
			dcases = append(dcases, caseOf(fmt.Sprintf("deep-%d", i), v))
		}
		dn, _, derr := NativeReplay(prog, dcases, false)
		if derr == nil {
			got := map[string]ReplayResult{}
			for _, n := range dn {
				got[n.ID] = n
			}
			for i, v := range dv {
				n := got[fmt.Sprintf("deep-%d", i)]
				key := keyToken(violationKey(v))
				if !sameObs(n.Observations, v.Observed) || seenKeys[key] {
					continue
				}
				seenKeys[key] = true
				confirmed++
				rf := ReplayFile{Property: id, Key: key, Label: v.Label, Info: v.Info, Case: caseOf(key, v), Predicted: v.Observed}
				b, _ := json.MarshalIndent(rf, "", " ")
				path := filepath.Join(VerifDir, "replays", id, shortHash(key)+".json")
				os.WriteFile(path, b, 0o644)
				if k, ok := knownKeys[key]; ok {
					knownHits[key] = true
					fmt.Printf("KNOWN-FINDING: property=%s %s (%s)\n", id, k.Desc, key)
					continue
				}
				newViol++
				fmt.Printf("VIOLATION property=%s replay=%s\n", id, path)
				fmt.Printf("  instance: %s\n  obligation: %s\n  detail: %s\n", v.Instance.ID, v.Label, v.Info)
			}
		}
	}

	fns := make([]string, 0, len(called))
	for k := range called {
		fns = append(fns, k)
	}
	sort.Strings(fns)
	stubNames := make([]string, 0, len(stubs))
	for k := range stubs {
		if !strings.HasPrefix(k, "github.com/antchfx/xpath.v") {
			stubNames = append(stubNames, k)
		}
	}
	sort.Strings(stubNames)
	if len(samples) == 0 {
		samples = append(samples, Sample{Instance: "(no feasible path sampled)"})
	}
	ev := &Evidence{PropertyID: id, Tier: tier, Seed: seed, Level: "model_checking", WallS: time.Since(t0).Seconds(), Violations: newViol,
		Assumptions: append([]string{
			"go/ssa (x/tools v0.29.0) is the meaning of the source; gosym's instruction semantics (validated by selftest and sampled native replays)",
			"the SMT solver's answers (z3 5.1.0 by default) are trusted; every unknown/error makes the instance inconclusive; a solver process that dies under a query is replaced and the same query (same assertions) is asked again, at most 3 times (coverage.solver_restarts)",
		}, chk.Assume...),
		Coverage: map[string]interface{}{
			"states":                        paths,
			"transitions":                   int(decisions),
			"traces_validated_against_impl": validated,
			"samples":                       samples,
			"evaluations":                   evaluations,
			"distinct_nontrivial":           nontriv,
			"rule":                          fam.Rule,
			"explanation":                   chk.Explain,
			"functions_encoded":             fns,
			"bounds":                        fam.Bounds,
			"outside_claim":                 fam.Outside,
			"queries":                       map[string]int{"total": queries, "sat": nsat, "unsat": nunsat, "unknown": nunknown},
			"solver_s":                      solverS,
			"solver_restarts":               restarts,
			"stubs":                         stubNames,
			"obligations":                   obligations,
			"discharged":                    held,
			"assume_failed_paths":           assumeFails,
			"aborted_paths":                 aborts,
			"canaries":                      map[string]interface{}{"expected_sat": len(fam.Canaries), "sat": canaryOK, "failed": canaryBad},
			"inconclusive_instances":        incompleteInst,
			"violations_confirmed_natively": confirmed,
			"encoder_mismatches":            mismatches,
			"known_findings_hit":            len(knownHits),
			"frame_condition_failures":      frameFindings,
			"unconfirmed_monitor_findings":  unconfirmed,
			"exhaustive":                    false,
		},
	}
	if err := writeEvidence(ev); err != nil {
		fmt.Printf("INCONCLUSIVE property=%s cannot write evidence: %v\n", id, err)
		return 2
	}
	fmt.Printf("property=%s tier=%s instances=%d paths=%d obligations=%d discharged=%d nontrivial=%d queries=%d (sat %d unsat %d unknown %d) solver=%.1fs wall=%.1fs validated=%d canaries=%d/%d solver_restarts=%d\n",
		id, tier, evaluations, paths, obligations, held, nontriv, queries, nsat, nunsat, nunknown, solverS, time.Since(t0).Seconds(), validated, canaryOK, len(fam.Canaries), restarts)
	code := 0
	if len(mismatches) > 0 {
		for i, mm := range mismatches {
			if i < 20 {
				if len(mm) > 1500 {
					mm = mm[:1500] + "…"
				}
				fmt.Printf("ENCODER-MISMATCH property=%s %s\n", id, mm)
			}
		}
		code = 2
	}
	if newViol > 0 {
		return 1
	}
	if len(unconfirmed) > 0 {
		for _, u := range unconfirmed {
			fmt.Printf("INCONCLUSIVE property=%s monitor finding not confirmed by its native replay (race detector / stack limit / deadline): %s\n", id, u)
		}
		code = 2
	}
	if len(unconfirmedHavoc) > 0 {
		for i, u := range unconfirmedHavoc {
			if i < 10 {
				fmt.Printf("INCONCLUSIVE property=%s %s\n", id, u)
			}
		}
		code = 2
	}
	if len(canaryBad) > 0 {
		fmt.Printf("INCONCLUSIVE property=%s canaries came back unsat: %v\n", id, canaryBad)
		code = 2
	}
	if len(vacuous) > 0 {
		fmt.Printf("INCONCLUSIVE property=%s instances without any reached obligation: %v\n", id, vacuous)
		code = 2
	}
	if len(solverErrors) > 0 {
		fmt.Printf("INCONCLUSIVE property=%s solver errors: %v\n", id, solverErrors[:1])
		code = 2
	}
	if len(incompleteInst) > 0 {
		for i, s := range incompleteInst {
			if i < 10 {
				fmt.Printf("INCOMPLETE property=%s %s\n", id, s)
			}
		}
		// instances that ran out of budget are reported (here and in the evidence) as
		// outside what was explored; too many of them and the check declines to answer
		// (quick: more than 2 %, thorough: more than 10 % of the instances)
		limit := 50
		if tier == "thorough" {
			limit = 10
		}
		if len(incompleteInst)*limit > evaluations {
			code = 2
		}
	}
	return code
}


// solverChoice: z3 5.1.0 (z3-new) decides the queries; GOSYM_SOLVER overrides.
func solverChoice() string {
	if s := os.Getenv("GOSYM_SOLVER"); s != "" {
		return s
	}
	return "z3-new"
}
