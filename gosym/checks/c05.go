package checks

import (
	"strings"
	"time"

	"gosym/vm"
)

func init() {
	register(&Check{
		ID: "C05",
		Explain: "Interleavings are not explored. The property is reduced to non-interference, checked on the real code by symbolic " +
			"execution: one Select/Evaluate call on a compiled expression (symbolic document/context) performs no store at all - not " +
			"even of an equal value - to a cell reachable from the compiled expression or package globals, unless a sync lock is held; " +
			"sync.Pool hand-offs are synchronised by contract. With no unlocked shared store, reads are race-free and every interleaving " +
			"equals a sequential run (C04). A feasible unlocked store is replayed natively: the witness runs from 4 goroutines under " +
			"the race detector, and only a reported race (or a differing result) is a violation.",
		Technique: "concolic symbolic execution of go/ssa with a shared-store + lockset monitor (non-interference as sufficient condition); witnesses replayed under go test -race",
		Assume: []string{
			"non-interference is a sufficient condition; code that is race-free by another protocol would be reported as inconclusive, not violated",
			"sync.Mutex/RWMutex/Pool semantics as documented; the regexp cache's own locking is C16's subject",
			"each goroutine uses its own navigator",
		},
		Build: buildC05,
	})
}

func buildC05(tier string, seed int64) *Family {
	cfg := docCfg{N: 3, A: 1, Names: "a,b", Pool: ",1"}
	if tier == "thorough" {
		cfg = docCfg{N: 4, A: 1, Names: "a,b", Pool: ",1"}
	}
	var insts []*vm.Instance
	for _, x := range purityExprs {
		c := cfg
		if !strings.Contains(x, "@") {
			c.A = 0
		}
		insts = append(insts, pureInst("H_conc", x, c))
	}
	// concurrent use of the regular-expression functions goes through the pattern cache: its
	// lock discipline (C16's inductive step with the lockset monitor; a read lock does not
	// protect a write), replayed natively as a multi-goroutine stress under the race detector
	insts = append(insts, &vm.Instance{ID: "cache: inductive step of loadingCache.get", Harness: "H_cache", Params: map[string]string{}})
	var can []*vm.Instance
	for _, x := range []string{"//a", "*[a]", "a = 1"} {
		c := pureInst("H_conc", x, cfg)
		c.ID = "canary " + c.ID
		c.Params["canary"] = "1"
		c.Params["steps"] = "1"
		can = append(can, c)
	}
	return &Family{
		Instances: dedupInst(insts),
		Canaries:  can,
		Race:      true,
		Bounds: map[string]interface{}{
			"document_slots_N_including_root": cfg.N, "attributes_per_element_A": cfg.A, "calls": "one Select or Evaluate (symbolic choice), fully drained",
			"goroutines_in_native_replay": 4,
		},
		Rule: "instance = one expression of the purity family; case = explored symbolic path; non-trivial = the call produced a non-empty observation",
		Outside: []string{"interleavings themselves (reduced to non-interference)", "clients that assign RegexpCache concurrently", "navigators shared between goroutines"},
		PerInst: 10 * time.Minute,
	}
}
