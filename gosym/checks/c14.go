package checks

import (
	"strings"
	"time"

	"gosym/oracle"
	"gosym/vm"
)

func init() {
	register(&Check{
		ID: "C14",
		Explain: "Documents whose elements and attributes carry a symbolic prefix (none, p, q) and namespace URI (none, u1, u2); configurations = " +
			"navigator with / without NamespaceURL x Compile / CompileWithNS with maps nil, {}, {p:u1}, {p:u2}, {p:u1,q:u1}, {x:u1}; name tests a, p:a, q:a " +
			"on all 12 axes. The real code runs symbolically; per path the solver decides set(Select) = reference by the documented rule (no map, or " +
			"no URI on the navigator, or unprefixed test: prefix and local name equal; map and URI: (map[prefix], local) = (node URI, local) whatever " +
			"the node's prefix; prefix missing from a non-nil map: compile error). name(), local-name(), namespace-uri() without argument and with " +
			"a node-set argument must return the qualified / local name / URI (prefix when the navigator has no URI) of the context / first node.",
		Technique: "concolic symbolic execution of go/ssa + SMT (z3) per-path obligation against the documented name-matching rule",
		Assume: []string{
			"navigator contract of harness/nav.go; symNavNS additionally implements NamespaceURL() string",
			"names {a,b}, prefixes {\"\",p,q}, URIs {\"\",u1,u2} as symbolic labels per element and attribute",
		},
		Build: buildC14,
	})
}

func buildC14(tier string, seed int64) *Family {
	cfg := docCfg{N: 3, A: 1, Names: "a,b", Pool: ","}
	if tier == "thorough" {
		cfg = docCfg{N: 4, A: 2, Names: "a,b", Pool: ","}
	}
	type conf struct {
		nsmap string
		nav   string
	}
	maps := []string{"none", "nil", "empty", "p=u1", "p=u2", "p=u1;q=u1", "p=u1;q=u2", "x=u1"}
	navs := []string{"plain", "ns"}
	tests := []string{"a", "p:a", "q:a"}
	parseMap := func(spec string) map[string]string {
		switch spec {
		case "none", "nil":
			return nil
		case "empty":
			return map[string]string{}
		}
		m := map[string]string{}
		for _, kv := range strings.Split(spec, ";") {
			i := strings.Index(kv, "=")
			m[kv[:i]] = kv[i+1:]
		}
		return m
	}
	cur := cfg // document bounds of the instance being made
	mk := func(harness, text, nsmap, nav string) *vm.Instance {
		ast := oracle.MustParse(text)
		p := cur.params()
		p["expr"] = text
		p["prefixes"] = ",p,q"
		p["uris"] = ",u1,u2"
		p["nav"] = nav
		if nsmap != "none" {
			p["nsmap"] = nsmap
		}
		ex := &vm.OracleExtra{Exprs: map[string]oracle.Expr{"expr": ast, "reuse": ast}, NSMap: parseMap(nsmap), HasURI: nav == "ns"}
		in := &vm.Instance{ID: text + " map=" + nsmap + " nav=" + nav + " @" + cur.tag(), Harness: harness, Params: p, Extra: ex}
		// a prefix that is missing from a non-nil map must be rejected by CompileWithNS
		if m := parseMap(nsmap); m != nil || nsmap == "empty" {
			for _, pf := range []string{"p:", "q:"} {
				if strings.Contains(text, pf) {
					if _, ok := m[pf[:1]]; !ok {
						in.Params["expecterr"] = "1"
					}
				}
			}
		}
		return in
	}
	var insts []*vm.Instance
	for ai, ax := range oracle.Axes {
		for ti, t := range tests {
			for mi, mp := range maps {
				for ni, nv := range navs {
					// quick: every axis x test sees every map and navigator, but not every combination
					if tier != "thorough" && (ai+ti+mi+ni)%3 != 0 {
						continue
					}
					insts = append(insts, mk("H_nodeset", ax+"::"+t, mp, nv))
				}
			}
		}
	}
	for _, x := range []string{"//p:a", "//a", "//q:a/@p:a", "p:a/q:a", "//*[p:a]", "@p:a", "//@q:a", "p:a | q:a",
		// descendant steps feeding descendant steps, with name tests
		"descendant-or-self::p:a/descendant::q:a", "descendant::p:a//a", "descendant-or-self::p:a//p:a", "descendant::p:a/descendant-or-self::*",
		// a prefixed name test followed by unprefixed ones
		"p:a/a", "//p:a/a", "p:a/@a", "ancestor::p:a/child::a", "//p:a//b", "p:a/*", "p:a/q:a/a", "@p:a/../a",
		// NCName:* — every element (attribute) of that prefix / namespace
		"p:*", "//p:*", "@p:*", "//q:*/@p:*", "ancestor::p:*", "//*[p:*]", "p:*/q:a", "//*[self::p:*]", "following::q:*", "//*[p:* or a]", "//*[p:* and q:a]"} {
		for _, mp := range maps {
			for _, nv := range navs {
				// attribute steps below '//' over two attributes per element exceed the
				// per-instance budget: one attribute per element for these
				if strings.Contains(x, "//") && strings.Contains(x, "@") {
					cur = docCfg{N: cfg.N, A: 1, Names: cfg.Names, Pool: cfg.Pool}
				}
				insts = append(insts, mk("H_nodeset", x, mp, nv))
				cur = cfg
			}
		}
	}
	// descendant steps feeding descendant steps from a context that has following siblings (5 slots)
	for _, x := range []string{"descendant::p:a/descendant-or-self::*", "descendant::a/descendant::p:a", "descendant-or-self::p:a/descendant::*"} {
		for _, nv := range navs {
			cur = docCfg{N: 5, A: 0, Names: cfg.Names, Pool: cfg.Pool}
			in := mk("H_nodeset", x, "none", nv)
			in.Params["prefixes"] = ",p"
			in.Params["uris"] = ",u1"
			insts = append(insts, in)
			cur = cfg
		}
	}
	// name functions
	fns := []string{"name()", "local-name()", "namespace-uri()", "name(*)", "local-name(*)", "namespace-uri(*)", "name(@*)", "local-name(@*)", "namespace-uri(@*)",
		"name(//a)", "local-name(//b)", "namespace-uri(//a)", "name(a)", "name(..)", "local-name(.)", "namespace-uri(@a)", "name(p:a)", "local-name(//p:a)",
		// an argument with a predicate, an absolute or a following:: argument leaves the context node of what follows alone
		"concat(name(*[2]), '|', name())", "concat(local-name(*[@a]), '|', local-name())", "concat(name(/*), '|', name())", "concat(namespace-uri(*[1]), '|', namespace-uri())",
		"concat(name(following::*), '|', local-name())", "name(*[2])", "local-name(*[@a])", "namespace-uri(*[last()])", "name(following::*)", "name(../*)"}
	for _, f := range fns {
		for _, nv := range navs {
			mp := "none"
			if strings.Contains(f, "p:") {
				mp = "p=u1"
			}
			insts = append(insts, mk("H_value", f, mp, nv))
		}
	}
	// name functions evaluated once per candidate inside a predicate
	for _, x := range []string{"//*[name(..) = 'a']", "//*[local-name(*) = 'a']", "//*[namespace-uri(*) = 'u1']", "//*[name(@*) = 'p:a']", "//*[namespace-uri(..) != '']",
		"//*[local-name(following-sibling::*) = 'b']", "//*[name() = name(..)]", "//*[name(*[1]) = name()]", "//*[local-name(*[@a]) = 'a']", "//*[name(*[last()]) = name(*)]"} {
		for _, nv := range navs {
			insts = append(insts, mk("H_nodeset", x, "none", nv))
		}
	}
	wrong := func(text, wrongText, nsmap, nav string) *vm.Instance {
		in := mk("H_nodeset", text, nsmap, nav)
		in.ID = "canary " + text + " vs " + wrongText
		in.Extra.(*vm.OracleExtra).Exprs["expr"] = oracle.MustParse(wrongText)
		return in
	}
	return &Family{
		Instances: withValueReuse(withReuse(dedupInst(insts), 2), 2),
		Canaries: []*vm.Instance{
			wrong("child::p:a", "child::a", "none", "plain"),
			wrong("child::p:a", "child::q:a", "p=u1;q=u2", "ns"),
			wrong("//p:a", "//*", "p=u1", "ns"),
		},
		Bounds: map[string]interface{}{
			"document_slots_N_including_root": cfg.N, "attributes_per_element_A": cfg.A, "prefixes": ",p,q", "uris": ",u1,u2", "namespace_maps": maps, "navigators": navs,
		},
		Rule: "instance = name test (a, p:a, q:a) on one axis (and a few multi-step / predicate forms) x namespace map x navigator kind, and name-function calls; " +
			"case = explored symbolic path; non-trivial = reference set non-empty in the path's model (or the function was evaluated)",
		Outside: []string{"name functions of reverse-axis arguments (first yielded vs first in document order)", "default-namespace semantics", "documents beyond the bounds"},
		PerInst: 5 * time.Minute,
	}
}
