package checks

import (
	"math/rand"
	"time"

	"gosym/oracle"
	"gosym/vm"
)

func init() {
	register(&Check{
		ID: "C13",
		Explain: "Metamorphic relations between two runs of the real engine on one symbolic document: an absolute path gives the same " +
			"set from every (symbolic) start node; a relative path at node n gives the same set as /node()[k1]/.../P from the root, " +
			"with the k's derived from the document on each path; P[true()], (P), P | P preserve the set and not(not(P)) the truth " +
			"value. Both runs are executed symbolically; path conditions are discharged by the solver, the relation is asserted on every path.",
		Technique: "concolic symbolic execution of go/ssa (two engine runs per path) with SMT-decided path exploration; relation asserted on every explored path",
		Assume: []string{
			"navigator contract of harness/nav.go",
			"attribute contexts are addressed as .../@* on elements with exactly one attribute (positional filters on the attribute axis are outside C03's fragment)",
		},
		Build: buildC13,
	})
}

func metaInst(text, mode string, cfg docCfg) *vm.Instance {
	p := cfg.params()
	p["expr"] = text
	p["mode"] = mode
	return &vm.Instance{ID: mode + ": " + text + " @" + cfg.tag(), Harness: "H_meta", Params: p}
}

func buildC13(tier string, seed int64) *Family {
	r := rand.New(rand.NewSource(seed))
	cfg := docCfg{N: 4, A: 1, Names: "a,b", Pool: ",1"}
	nSeed := 40
	if tier == "thorough" {
		cfg = docCfg{N: 5, A: 1, Names: "a,b", Pool: ",1"}
		nSeed = 400
	}
	rel := []string{"a", "*", "..", ".", "@a", "@*", "a/a", "*/..", "following::a", "preceding::*", "following-sibling::*", "ancestor::*", "descendant::a", ".//a", "..//a",
		"*[a]", "*[following::a]", "*[1]", "a[last()]", "*[a and following::*]", "*[a or preceding::a]", "*[following::a and preceding::a]", "*[count(a | @a) = 1]",
		"self::*[following::a]", "../*[following-sibling::a and a]", "*[not(following::*)]", "descendant::*[following::a or ancestor::a]", "*[(a | following::a)/@a]",
		"ancestor-or-self::*[preceding-sibling::*]", "following::*[preceding::a]", "text()", "node()"}
	abs := []string{"/", "/a", "/*", "//a", "//*", "//@a", "/*/*", "//a/..", "//*[following::a]", "//*[a and following::*]", "//a[1]", "//*[last()]", "/descendant::a", "//text()", "//*[preceding::a or @a]", "/*[a]/a"}
	// predicates calling functions that share pooled scratch state
	rel = append(rel, "*[concat(@a, '!') = '1!' or normalize-space() = '1']", "*[normalize-space() = '1'][concat(., 'x') = '1x']", "*[string-join(*, '-') = '1' or concat(., .) = '11']")
	abs = append(abs, "//*[concat(@a, '!') = '1!' or normalize-space() = '1']", "//*[normalize-space(.) = '1' and concat('', .) = '1']")
	// unabbreviated first steps that the builder may fuse with the step after them
	for _, ax := range oracle.Axes {
		rel = append(rel, "descendant-or-self::node()/"+ax+"::a")
	}
	rel = append(rel, "descendant-or-self::node()/a", "descendant-or-self::node()/*", "descendant-or-self::node()/child::node()", "descendant-or-self::*/a", "descendant::node()/a",
		"self::node()/a", "descendant-or-self::node()/a/a", "descendant-or-self::node()/a[1]", "descendant-or-self::node()/@a", "descendant-or-self::node()/text()",
		"child::node()/descendant-or-self::node()/a", "parent::node()/descendant-or-self::node()/a", "descendant-or-self::node()/descendant-or-self::node()/a")
	var insts []*vm.Instance
	for _, p := range abs {
		insts = append(insts, metaInst(p, "abs", cfg))
	}
	for _, p := range rel {
		insts = append(insts, metaInst(p, "rel", cfg))
	}
	ident := append(append([]string{}, rel...), abs[1:]...)
	for i, p := range ident {
		mode := []string{"true", "paren", "self-union", "notnot"}[i%4]
		insts = append(insts, metaInst(p, mode, cfg))
	}
	for k := 0; k < nSeed; k++ {
		p := pick(r, oracle.Axes) + "::" + pick(r, nodeTests)
		if k%2 == 0 {
			p += "/" + pick(r, oracle.Axes) + "::" + pick(r, nodeTests)
		}
		if k%3 == 0 {
			p += "[" + pick(r, []string{"a", "following::a", "a and following::*", "@a or preceding::*", "count(*) = 1", "not(ancestor::a)"}) + "]"
		}
		insts = append(insts, metaInst(p, []string{"rel", "true", "paren", "self-union", "notnot"}[k%5], cfg))
		insts = append(insts, metaInst("/"+p, "abs", cfg))
	}
	// the node identity key used for de-duplication (ancestor steps, unions) is injective on
	// position paths with one- and two-digit sibling indices (C11's identity kernel, element case)
	insts = append(insts, &vm.Instance{ID: "identity kernel: element vs element on position paths with one- and two-digit indices", Harness: "H_identity",
		Params: map[string]string{"abstracthash": "1", "kindx": "0", "kindy": "0"}})
	can := []*vm.Instance{metaInst("*", "abs", cfg), metaInst("following::a", "abs", cfg), metaInst("..", "abs", cfg)}
	for _, c := range can {
		c.ID = "canary " + c.ID
	}
	return &Family{
		Instances: dedupInst(insts),
		Canaries:  can,
		Bounds: map[string]interface{}{
			"document_slots_N_including_root": cfg.N, "attributes_per_element_A": cfg.A, "address_depth": "<= N-1",
		},
		Rule: "instance = relation (abs / rel / [true()] / (P) / P|P / not(not(P))) x path from the C01/C02 families (incl. predicates that move the shared cursor); " +
			"case = explored symbolic path; non-trivial = the first run's result is non-empty (resp. true)",
		Outside: []string{"attribute contexts on elements with more than one attribute (for the rel relation)", "documents beyond the bounds"},
		PerInst: 10 * time.Minute,
	}
}
