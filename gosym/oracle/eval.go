package oracle

import (
	"fmt"
	"math"
	"regexp"
	"strconv"
	"strings"

	"gosym/sym"
)

// Node identifies a node of the bounded document: slot S (0 = root) and
// attribute index A (-1 = the slot node itself).
type Node struct{ S, A int }

// Doc holds the symbolic document variables (named exactly as the harness names them).
type Doc struct {
	C        *sym.Ctx
	N, A     int
	Names    []string
	Pool     []string
	Prefixes []string
	URIs     []string

	D, Kind, Name, Pfx, URI, Val, NAttr []*sym.Term
	AName, APfx, AURI, AVal             [][]*sym.Term

	Nodes []Node
	index map[Node]int

	// configuration for name tests (C14)
	NSMap  map[string]string // nil: compiled without namespace map
	HasURI bool              // navigator exposes NamespaceURL

	axisCache map[string]*sym.Term
	Holes     map[string]*Hole

	// OutsideClaim collects conditions under which the evaluated expression left
	// the fragment the reference defines (e.g. string() of a non-integer); the
	// obligation only binds where it is false.
	OutsideClaim *sym.Term

	// Hint evaluates a term under the current path's model (optional). It is used
	// only to rewrite t as ite(t = c, c, t), which is equivalent to t for every c
	// and lets the solver replace structure-determined subterms by constants.
	Hint   func(t *sym.Term) sym.Val
	Lemmas []*sym.Term
}

// Hole is a symbolic literal injected into the expression.
type Hole struct {
	F   *sym.Term   // numeric hole (FP)
	I   *sym.Term   // integer-valued numeric hole (BV64), F = to_fp(I)
	S   string      // string hole: concrete bytes of this path
	B   []*sym.Term // and their terms
}

type Unsupported struct{ Msg string }

func unsupported(format string, a ...interface{}) {
	panic(Unsupported{fmt.Sprintf(format, a...)})
}

func NewDoc(c *sym.Ctx, N, A int, names, pool, prefixes, uris []string) *Doc {
	d := &Doc{C: c, N: N, A: A, Names: names, Pool: pool, Prefixes: prefixes, URIs: uris,
		index: map[Node]int{}, axisCache: map[string]*sym.Term{}, Holes: map[string]*Hole{}, OutsideClaim: c.F}
	if len(d.Prefixes) == 0 {
		d.Prefixes = []string{""}
	}
	if len(d.URIs) == 0 {
		d.URIs = []string{""}
	}
	np, nu := len(d.Prefixes), len(d.URIs)
	_ = np
	_ = nu
	mk := func(n int) []*sym.Term { return make([]*sym.Term, n) }
	d.D, d.Kind, d.Name, d.Pfx, d.URI, d.Val, d.NAttr = mk(N), mk(N), mk(N), mk(N), mk(N), mk(N), mk(N)
	d.AName, d.APfx, d.AURI, d.AVal = make([][]*sym.Term, N), make([][]*sym.Term, N), make([][]*sym.Term, N), make([][]*sym.Term, N)
	d.D[0] = c.BVC(64, 0)
	for i := 1; i < N; i++ {
		si := strconv.Itoa(i)
		d.D[i] = c.IntVar("d"+si, 0, int64(N-1))
		d.Kind[i] = c.IntVar("k"+si, 1, 4)
		d.Name[i] = c.IntVar("nm"+si, 0, int64(len(names)-1))
		d.Pfx[i] = c.IntVar("px"+si, 0, int64(np-1))
		d.URI[i] = c.IntVar("ur"+si, 0, int64(nu-1))
		d.Val[i] = c.IntVar("v"+si, 0, int64(len(pool)-1))
		d.NAttr[i] = c.IntVar("na"+si, 0, int64(A))
		d.AName[i], d.APfx[i], d.AURI[i], d.AVal[i] = mk(A), mk(A), mk(A), mk(A)
		for a := 0; a < A; a++ {
			sa := si + "_" + strconv.Itoa(a)
			d.AName[i][a] = c.IntVar("an"+sa, 0, int64(len(names)-1))
			d.APfx[i][a] = c.IntVar("ap"+sa, 0, int64(np-1))
			d.AURI[i][a] = c.IntVar("au"+sa, 0, int64(nu-1))
			d.AVal[i][a] = c.IntVar("av"+sa, 0, int64(len(pool)-1))
		}
	}
	for i := 0; i < N; i++ {
		d.index[Node{i, -1}] = len(d.Nodes)
		d.Nodes = append(d.Nodes, Node{i, -1})
		if i > 0 {
			for a := 0; a < A; a++ {
				d.index[Node{i, a}] = len(d.Nodes)
				d.Nodes = append(d.Nodes, Node{i, a})
			}
		}
	}
	return d
}

// Index returns the position of n in document order among all potential nodes.
func (d *Doc) Index(n Node) int { return d.index[n] }

func (d *Doc) k(v int) *sym.Term { return d.C.BVC(64, uint64(int64(v))) }

func (d *Doc) lt(a, b *sym.Term) *sym.Term { return d.C.BvCmp(sym.OBvSlt, a, b) }
func (d *Doc) le(a, b *sym.Term) *sym.Term { return d.C.BvCmp(sym.OBvSle, a, b) }

// Ex: the node exists in the document.
func (d *Doc) Ex(n Node) *sym.Term {
	c := d.C
	if n.S == 0 {
		if n.A >= 0 {
			return c.F
		}
		return c.T
	}
	e := c.Not(c.Eq(d.D[n.S], d.k(0)))
	if n.A < 0 {
		return e
	}
	return c.And(e, c.Eq(d.Kind[n.S], d.k(1)), d.lt(d.k(n.A), d.NAttr[n.S]))
}

// anc: slot i is a proper ancestor of slot j.
func (d *Doc) anc(i, j int) *sym.Term {
	c := d.C
	if i >= j {
		return c.F
	}
	key := fmt.Sprintf("anc:%d:%d", i, j)
	if t, ok := d.axisCache[key]; ok {
		return t
	}
	var conj []*sym.Term
	if i > 0 {
		conj = append(conj, d.Ex(Node{i, -1}))
	}
	for k := i + 1; k <= j; k++ {
		conj = append(conj, d.lt(d.D[i], d.D[k]))
	}
	t := c.And(conj...)
	d.axisCache[key] = t
	return t
}

func (d *Doc) child(i, j int) *sym.Term {
	c := d.C
	if i >= j {
		return c.F
	}
	return c.And(d.anc(i, j), c.Eq(d.D[j], c.BvBin(sym.OBvAdd, d.D[i], d.k(1))))
}

// fsib: slot j is a following sibling of slot i.
func (d *Doc) fsib(i, j int) *sym.Term {
	c := d.C
	if i <= 0 || i >= j {
		return c.F
	}
	key := fmt.Sprintf("fsib:%d:%d", i, j)
	if t, ok := d.axisCache[key]; ok {
		return t
	}
	conj := []*sym.Term{d.Ex(Node{i, -1}), c.Eq(d.D[j], d.D[i])}
	for k := i + 1; k < j; k++ {
		conj = append(conj, d.le(d.D[i], d.D[k]))
	}
	t := c.And(conj...)
	d.axisCache[key] = t
	return t
}

var ForwardAxis = map[string]bool{
	"child": true, "descendant": true, "descendant-or-self": true, "following": true,
	"following-sibling": true, "attribute": true, "self": true,
	"parent": false, "ancestor": false, "ancestor-or-self": false, "preceding": false, "preceding-sibling": false,
}

var Axes = []string{"ancestor", "ancestor-or-self", "attribute", "child", "descendant", "descendant-or-self",
	"following", "following-sibling", "parent", "preceding", "preceding-sibling", "self"}

// Axis: y is on axis a of context x (both assumed to exist where relevant; the
// relation includes existence of y).
func (d *Doc) Axis(a string, x, y Node) *sym.Term {
	c := d.C
	key := fmt.Sprintf("%s:%d:%d:%d:%d", a, x.S, x.A, y.S, y.A)
	if t, ok := d.axisCache[key]; ok {
		return t
	}
	t := c.And(d.axis(a, x, y), d.Ex(y))
	d.axisCache[key] = t
	return t
}

func (d *Doc) axis(a string, x, y Node) *sym.Term {
	c := d.C
	xs, ys := x.A < 0, y.A < 0 // on slot nodes
	switch a {
	case "self":
		return c.BoolC(x == y)
	case "child":
		if !xs || !ys {
			return c.F
		}
		return d.child(x.S, y.S)
	case "descendant":
		if !xs || !ys {
			return c.F
		}
		return d.anc(x.S, y.S)
	case "descendant-or-self":
		if x == y {
			return c.T
		}
		return d.axis("descendant", x, y)
	case "parent":
		if !ys {
			return c.F
		}
		if !xs {
			return c.BoolC(y.S == x.S)
		}
		return d.child(y.S, x.S)
	case "ancestor":
		if !ys {
			return c.F
		}
		if !xs {
			if y.S == x.S {
				return c.T
			}
			return d.anc(y.S, x.S)
		}
		return d.anc(y.S, x.S)
	case "ancestor-or-self":
		if x == y {
			return c.T
		}
		return d.axis("ancestor", x, y)
	case "following-sibling":
		if !xs || !ys {
			return c.F
		}
		return d.fsib(x.S, y.S)
	case "preceding-sibling":
		if !xs || !ys {
			return c.F
		}
		return d.fsib(y.S, x.S)
	case "following":
		if !ys {
			return c.F
		}
		if !xs {
			// after an attribute: the element's descendants and everything after the element
			if y.S <= x.S {
				return c.F
			}
			return c.T
		}
		if y.S <= x.S {
			return c.F
		}
		return c.Not(d.anc(x.S, y.S))
	case "preceding":
		if !ys {
			return c.F
		}
		if y.S >= x.S {
			return c.F
		}
		return c.Not(d.anc(y.S, x.S))
	case "attribute":
		if !xs || ys {
			return c.F
		}
		return c.BoolC(x.S == y.S)
	}
	panic("oracle: unknown axis " + a)
}

func indexOf(list []string, s string) int {
	for i, x := range list {
		if x == s {
			return i
		}
	}
	return -1
}

// Test: node y passes node test t on axis a.
func (d *Doc) Test(a string, t NodeTest, y Node) *sym.Term {
	c := d.C
	isAttrAxis := a == "attribute"
	switch t.Kind {
	case "node":
		return c.T
	case "text":
		if y.A >= 0 || y.S == 0 {
			return c.F
		}
		return c.Eq(d.Kind[y.S], d.k(3))
	case "comment":
		if y.A >= 0 || y.S == 0 {
			return c.F
		}
		return c.Eq(d.Kind[y.S], d.k(4))
	}
	// principal node type
	var principal *sym.Term
	if isAttrAxis {
		principal = c.BoolC(y.A >= 0)
	} else if y.A >= 0 || y.S == 0 {
		principal = c.F
	} else {
		principal = c.Eq(d.Kind[y.S], d.k(1))
	}
	if t.Kind == "*" || principal.IsFalse() {
		return principal
	}
	// name test
	var nameV, pfxV, uriV *sym.Term
	if y.A >= 0 {
		nameV, pfxV, uriV = d.AName[y.S][y.A], d.APfx[y.S][y.A], d.AURI[y.S][y.A]
	} else {
		nameV, pfxV, uriV = d.Name[y.S], d.Pfx[y.S], d.URI[y.S]
	}
	var local *sym.Term
	if t.Name == "*" && t.Prefix != "" {
		// NCName:* — every node of the principal type in that namespace
		local = c.T
	} else {
		ni := indexOf(d.Names, t.Name)
		if ni < 0 {
			return c.F
		}
		local = c.Eq(nameV, d.k(ni))
	}
	var qual *sym.Term
	if t.Prefix != "" && d.NSMap != nil && d.HasURI {
		u, ok := d.NSMap[t.Prefix]
		if !ok {
			unsupported("prefix %s not bound (compile error expected)", t.Prefix)
		}
		ui := indexOf(d.URIs, u)
		if ui < 0 {
			qual = c.F
		} else if len(d.URIs) == 1 {
			qual = c.T
		} else {
			qual = c.Eq(uriV, d.k(ui))
		}
	} else {
		pi := indexOf(d.Prefixes, t.Prefix)
		if pi < 0 {
			qual = c.F
		} else if len(d.Prefixes) == 1 {
			qual = c.T
		} else {
			qual = c.Eq(pfxV, d.k(pi))
		}
	}
	return c.And(principal, local, qual)
}

// ---- values ----

type Kind int

const (
	KNodeSet Kind = iota
	KBool
	KNum
	KStr
)

type StrCase struct {
	Cond *sym.Term
	S    string      // concrete bytes (of this path, for symbolic ones)
	B    []*sym.Term // nil or per-byte terms (nil entry = concrete)
}

type Val struct {
	K  Kind
	NS []*sym.Term // KNodeSet: one Bool per d.Nodes entry
	B  *sym.Term
	F  *sym.Term // KNum: FP term
	I  *sym.Term // KNum: optional exact small-integer representation (BV64)
	S  []StrCase // KStr: guarded cases, exactly one condition holds
}

type Ctx struct {
	Node int       // index into d.Nodes
	Pos  *sym.Term // BV64, nil outside predicates
	Size *sym.Term
}

func (d *Doc) numI(i *sym.Term) Val {
	c := d.C
	if d.Hint != nil && !i.IsConst() {
		// substitute the value the model gives and record "i = k" as a lemma the
		// caller must prove under the path condition before trusting the result
		k := c.BVC(64, d.Hint(i).U)
		d.Lemmas = append(d.Lemmas, c.Eq(i, k))
		return Val{K: KNum, I: k, F: c.FpFromSBV(k)}
	}
	return Val{K: KNum, I: i, F: c.FpFromSBV(i)}
}

// stableB substitutes the model value of a Bool term (recording a lemma).
func (d *Doc) stableB(t *sym.Term) *sym.Term {
	if d.Hint == nil || t.IsConst() {
		return t
	}
	k := d.C.BoolC(d.Hint(t).B())
	d.Lemmas = append(d.Lemmas, d.C.Eq(t, k))
	return k
}

// stableF substitutes the model value of an FP term that is determined by the
// document structure (recording the equality as a lemma).
func (d *Doc) stableF(t *sym.Term) *sym.Term {
	if d.Hint == nil || t.IsConst() {
		return t
	}
	k := d.C.FPC(d.Hint(t).F())
	d.Lemmas = append(d.Lemmas, d.C.Eq(t, k))
	return k
}

func (d *Doc) strConst(s string) Val {
	return Val{K: KStr, S: []StrCase{{Cond: d.C.T, S: s}}}
}

func (d *Doc) count(bs []*sym.Term) *sym.Term {
	c := d.C
	sum := d.k(0)
	for _, b := range bs {
		if b.IsFalse() {
			continue
		}
		sum = c.BvBin(sym.OBvAdd, sum, c.Ite(b, d.k(1), d.k(0)))
	}
	return sum
}

func (d *Doc) emptyNS() []*sym.Term {
	ns := make([]*sym.Term, len(d.Nodes))
	for i := range ns {
		ns[i] = d.C.F
	}
	return ns
}

// usesPosition: the predicate's value depends on position()/last() of its own context.
func usesPosition(e Expr) bool {
	switch e := e.(type) {
	case *Call:
		if e.Name == "position" || e.Name == "last" {
			return true
		}
		for _, a := range e.Args {
			if usesPosition(a) {
				return true
			}
		}
	case *Binary:
		return usesPosition(e.L) || usesPosition(e.R)
	case *Neg:
		return usesPosition(e.X)
	case *Num:
		return false
	case *Group:
		return usesPosition(e.X) // predicates inside have their own context
	case *Path:
		if e.Base != nil {
			return usesPosition(e.Base)
		}
	}
	return false
}

// StaticKind: the static result type of an expression.
func StaticKind(e Expr) Kind {
	switch e := e.(type) {
	case *Path:
		return KNodeSet
	case *Group:
		return StaticKind(e.X)
	case *Num, *Neg:
		return KNum
	case *Str:
		return KStr
	case *Binary:
		switch e.Op {
		case "|":
			return KNodeSet
		case "+", "-", "*", "div", "mod":
			return KNum
		}
		return KBool
	case *Call:
		switch e.Name {
		case "count", "sum", "position", "last", "number", "string-length", "floor", "ceiling", "round":
			return KNum
		case "string", "concat", "name", "local-name", "namespace-uri", "substring", "substring-before",
			"substring-after", "normalize-space", "translate", "lower-case", "string-join", "replace":
			return KStr
		case "reverse":
			return KNodeSet
		}
		return KBool
	}
	panic(fmt.Sprintf("StaticKind: %T", e))
}

// predHolds: value of predicate p for candidate y with proximity position pos / context size.
func (d *Doc) predHolds(p Expr, y int, pos, size *sym.Term) *sym.Term {
	v := d.Eval(p, Ctx{Node: y, Pos: pos, Size: size})
	if v.K == KNum {
		if v.I != nil {
			return d.C.Eq(v.I, pos)
		}
		return d.C.FpCmp(sym.OFpEq, v.F, d.C.FpFromSBV(pos))
	}
	return d.Boolean(v)
}

func (d *Doc) before(a string, z, y int) bool {
	if ForwardAxis[a] {
		return z < y
	}
	return z > y
}

// applyStep: the node-set reached from S by one step.
func (d *Doc) applyStep(S []*sym.Term, st Step) []*sym.Term {
	c := d.C
	if st.Seq != nil {
		out := d.emptyNS()
		for _, m := range st.Seq {
			r := d.applyStep(S, m)
			for i := range out {
				out[i] = c.Or(out[i], r[i])
			}
		}
		return out
	}
	n := len(d.Nodes)
	out := d.emptyNS()
	positional := false
	for _, p := range st.Preds {
		if StaticKind(p) == KNum || usesPosition(p) {
			positional = true
		}
	}
	test := make([]*sym.Term, n)
	for y := 0; y < n; y++ {
		test[y] = d.Test(st.Axis, st.Test, d.Nodes[y])
	}
	if !positional {
		for y := 0; y < n; y++ {
			if test[y].IsFalse() {
				continue
			}
			var reach []*sym.Term
			for x := 0; x < n; x++ {
				if S[x].IsFalse() {
					continue
				}
				ax := d.Axis(st.Axis, d.Nodes[x], d.Nodes[y])
				if ax.IsFalse() {
					continue
				}
				reach = append(reach, c.And(S[x], ax))
			}
			r := c.And(test[y], c.Or(reach...))
			if r.IsFalse() {
				continue
			}
			conj := []*sym.Term{r}
			for _, p := range st.Preds {
				conj = append(conj, d.predHolds(p, y, nil, nil))
			}
			out[y] = c.And(conj...)
		}
		return out
	}
	for x := 0; x < n; x++ {
		if S[x].IsFalse() {
			continue
		}
		cand := make([]*sym.Term, n)
		for y := 0; y < n; y++ {
			cand[y] = c.And(d.Axis(st.Axis, d.Nodes[x], d.Nodes[y]), test[y])
		}
		for _, p := range st.Preds {
			next := make([]*sym.Term, n)
			size := d.count(cand)
			for y := 0; y < n; y++ {
				if cand[y].IsFalse() {
					next[y] = c.F
					continue
				}
				var bef []*sym.Term
				for z := 0; z < n; z++ {
					if z != y && d.before(st.Axis, z, y) {
						bef = append(bef, cand[z])
					}
				}
				pos := c.BvBin(sym.OBvAdd, d.k(1), d.count(bef))
				next[y] = c.And(cand[y], d.predHolds(p, y, pos, size))
			}
			cand = next
		}
		for y := 0; y < n; y++ {
			out[y] = c.Or(out[y], c.And(S[x], cand[y]))
		}
	}
	return out
}

// filterInDocOrder applies predicates to a node-set with positions in document order.
func (d *Doc) filterInDocOrder(S []*sym.Term, preds []Expr) []*sym.Term {
	c := d.C
	n := len(d.Nodes)
	cand := S
	for _, p := range preds {
		next := make([]*sym.Term, n)
		size := d.count(cand)
		for y := 0; y < n; y++ {
			if cand[y].IsFalse() {
				next[y] = c.F
				continue
			}
			pos := c.BvBin(sym.OBvAdd, d.k(1), d.count(cand[:y]))
			next[y] = c.And(cand[y], d.predHolds(p, y, pos, size))
		}
		cand = next
	}
	return cand
}

func (d *Doc) single(i int) []*sym.Term {
	ns := d.emptyNS()
	ns[i] = d.C.T
	return ns
}

// Eval evaluates e at context cx.
func (d *Doc) Eval(e Expr, cx Ctx) Val {
	c := d.C
	switch e := e.(type) {
	case *Path:
		var S []*sym.Term
		switch {
		case e.Base != nil:
			b := d.Eval(e.Base, cx)
			if b.K != KNodeSet {
				unsupported("path continues from a non-node-set")
			}
			S = b.NS
		case e.Abs:
			S = d.single(0)
		default:
			S = d.single(cx.Node)
		}
		for i, st := range e.Steps {
			if e.Seps[i] == "//" {
				S = d.applyStep(S, Step{Axis: "descendant-or-self", Test: NodeTest{Kind: "node"}})
			}
			S = d.applyStep(S, st)
		}
		return Val{K: KNodeSet, NS: S}
	case *Group:
		v := d.Eval(e.X, cx)
		if len(e.Preds) == 0 {
			return v
		}
		if v.K != KNodeSet {
			unsupported("predicate on a non-node-set")
		}
		return Val{K: KNodeSet, NS: d.filterInDocOrder(v.NS, e.Preds)}
	case *Num:
		if e.Hole != "" {
			h := d.Holes[e.Hole]
			if h == nil {
				unsupported("unbound numeric hole %s", e.Hole)
			}
			return Val{K: KNum, F: h.F, I: h.I}
		}
		v := Val{K: KNum, F: c.FPC(e.V)}
		if e.V == math.Trunc(e.V) && math.Abs(e.V) < 1e9 && !(e.V == 0 && math.Signbit(e.V)) {
			v.I = d.k(int(e.V))
		}
		return v
	case *Str:
		if e.Hole != "" {
			h := d.Holes[e.Hole]
			if h == nil {
				unsupported("unbound string hole %s", e.Hole)
			}
			return Val{K: KStr, S: []StrCase{{Cond: c.T, S: h.S, B: h.B}}}
		}
		return d.strConst(e.V)
	case *Neg:
		x := d.Number(d.Eval(e.X, cx))
		// the engine computes x * -1
		return Val{K: KNum, F: c.FpBin(sym.OFpMul, x.F, c.FPC(-1))}
	case *Binary:
		return d.evalBinary(e, cx)
	case *Call:
		return d.evalCall(e, cx)
	}
	panic(fmt.Sprintf("oracle.Eval: %T", e))
}

func (d *Doc) evalBinary(e *Binary, cx Ctx) Val {
	c := d.C
	switch e.Op {
	case "|":
		l, r := d.Eval(e.L, cx), d.Eval(e.R, cx)
		if l.K != KNodeSet || r.K != KNodeSet {
			unsupported("union of non-node-sets")
		}
		out := d.emptyNS()
		for i := range out {
			out[i] = c.Or(l.NS[i], r.NS[i])
		}
		return Val{K: KNodeSet, NS: out}
	case "or":
		// left to right with short-circuit: the right operand is not evaluated
		// (and cannot raise) when the left one decides
		l := d.Boolean(d.Eval(e.L, cx))
		if l.IsTrue() {
			return Val{K: KBool, B: c.T}
		}
		return Val{K: KBool, B: c.Or(l, d.Boolean(d.Eval(e.R, cx)))}
	case "and":
		l := d.Boolean(d.Eval(e.L, cx))
		if l.IsFalse() {
			return Val{K: KBool, B: c.F}
		}
		return Val{K: KBool, B: c.And(l, d.Boolean(d.Eval(e.R, cx)))}
	case "+", "-", "*", "div", "mod":
		l, r := d.Number(d.Eval(e.L, cx)), d.Number(d.Eval(e.R, cx))
		switch e.Op {
		case "+":
			v := Val{K: KNum, F: c.FpBin(sym.OFpAdd, l.F, r.F)}
			if l.I != nil && r.I != nil {
				v.I = c.BvBin(sym.OBvAdd, l.I, r.I) // exact: both are small integers
			}
			return v
		case "-":
			v := Val{K: KNum, F: c.FpBin(sym.OFpSub, l.F, r.F)}
			if l.I != nil && r.I != nil {
				v.I = c.BvBin(sym.OBvSub, l.I, r.I)
			}
			return v
		case "*":
			return Val{K: KNum, F: c.FpBin(sym.OFpMul, l.F, r.F)}
		case "div":
			return Val{K: KNum, F: c.FpBin(sym.OFpDiv, l.F, r.F)}
		}
		// mod on the stated domain (non-negative integers < 2^53, divisor != 0):
		// truncating remainder of the integer values
		li, ri := d.toInt(l), d.toInt(r)
		return Val{K: KNum, F: c.FpFromSBV(c.BvBin(sym.OBvSRem, li, ri))}
	}
	return Val{K: KBool, B: d.compare(e.Op, d.Eval(e.L, cx), d.Eval(e.R, cx))}
}

func (d *Doc) toInt(v Val) *sym.Term {
	if v.I != nil {
		return v.I
	}
	return d.C.FpToSBV(v.F)
}

func (d *Doc) cmpNum(op string, a, b Val) *sym.Term {
	c := d.C
	if a.I != nil && b.I != nil {
		switch op {
		case "=":
			return c.Eq(a.I, b.I)
		case "!=":
			return c.Not(c.Eq(a.I, b.I))
		case "<":
			return d.lt(a.I, b.I)
		case "<=":
			return d.le(a.I, b.I)
		case ">":
			return d.lt(b.I, a.I)
		case ">=":
			return d.le(b.I, a.I)
		}
	}
	switch op {
	case "=":
		return c.FpCmp(sym.OFpEq, a.F, b.F)
	case "!=":
		return c.Not(c.FpCmp(sym.OFpEq, a.F, b.F))
	case "<":
		return c.FpCmp(sym.OFpLt, a.F, b.F)
	case "<=":
		return c.FpCmp(sym.OFpLe, a.F, b.F)
	case ">":
		return c.FpCmp(sym.OFpLt, b.F, a.F)
	case ">=":
		return c.FpCmp(sym.OFpLe, b.F, a.F)
	}
	panic("cmpNum " + op)
}

func (d *Doc) byteT(sc StrCase, i int) *sym.Term {
	if sc.B != nil && sc.B[i] != nil {
		return sc.B[i]
	}
	return d.C.BVC(8, uint64(sc.S[i]))
}

func (d *Doc) caseEq(a, b StrCase) *sym.Term {
	c := d.C
	if len(a.S) != len(b.S) {
		return c.F
	}
	var conj []*sym.Term
	for i := 0; i < len(a.S); i++ {
		conj = append(conj, c.Eq(d.byteT(a, i), d.byteT(b, i)))
	}
	return c.And(conj...)
}

// CaseEq: two string cases denote the same bytes.
func (d *Doc) CaseEq(a, b StrCase) *sym.Term { return d.caseEq(a, b) }

// CaseConcrete renders a case under a model (ev evaluates a byte term).
func (d *Doc) CaseConcrete(sc StrCase, ev func(*sym.Term) byte) string {
	bs := []byte(sc.S)
	for i := range bs {
		if sc.B != nil && sc.B[i] != nil {
			bs[i] = ev(sc.B[i])
		}
	}
	return string(bs)
}

func (d *Doc) strEq(a, b []StrCase) *sym.Term {
	c := d.C
	var disj []*sym.Term
	for _, x := range a {
		for _, y := range b {
			disj = append(disj, c.And(x.Cond, y.Cond, d.caseEq(x, y)))
		}
	}
	return c.Or(disj...)
}

func flipOp(op string) string {
	switch op {
	case "<":
		return ">"
	case "<=":
		return ">="
	case ">":
		return "<"
	case ">=":
		return "<="
	}
	return op
}

// NodeStr: the string-value of node i (the navigator's Value()).
func (d *Doc) NodeStr(i int) []StrCase {
	c := d.C
	n := d.Nodes[i]
	if n.S == 0 {
		return []StrCase{{Cond: c.T, S: ""}}
	}
	v := d.Val[n.S]
	if n.A >= 0 {
		v = d.AVal[n.S][n.A]
	}
	var out []StrCase
	for k, s := range d.Pool {
		out = append(out, StrCase{Cond: c.Eq(v, d.k(k)), S: s})
	}
	return out
}

// NormReplacement: the reference reading of an XPath replacement string written for
// Go's regexp: $N refers to group N, N being the longest run of digits that is a
// group number (0 = the whole match; a single digit beyond the last group names a
// group that does not exist); every reference becomes ${N}.
func NormReplacement(r string, groups int) string {
	out := ""
	i := 0
	for i < len(r) {
		if r[i] == '$' && i+1 < len(r) && r[i+1] >= '0' && r[i+1] <= '9' {
			n := int(r[i+1] - '0')
			j := i + 2
			for j < len(r) && r[j] >= '0' && r[j] <= '9' && n*10+int(r[j]-'0') <= groups {
				n = n*10 + int(r[j]-'0')
				j++
			}
			out += "${" + strconv.Itoa(n) + "}"
			i = j
			continue
		}
		out += r[i : i+1]
		i++
	}
	return out
}

var numberRe = regexp.MustCompile(`^[ \t\r\n]*-?([0-9]+(\.[0-9]*)?|\.[0-9]+)[ \t\r\n]*$`)

// XPathNumber converts a concrete string by the XPath 1.0 number() rules.
func XPathNumber(s string) float64 {
	if !numberRe.MatchString(s) {
		return math.NaN()
	}
	f, err := strconv.ParseFloat(strings.Trim(s, " \t\r\n"), 64)
	if err != nil {
		return math.NaN()
	}
	return f
}

func (d *Doc) strToNum(s []StrCase) Val {
	c := d.C
	f := c.FPC(math.NaN())
	for i := len(s) - 1; i >= 0; i-- {
		if s[i].B != nil {
			for _, b := range s[i].B {
				if b != nil {
					unsupported("number() of a symbolic string")
				}
			}
		}
		f = c.Ite(s[i].Cond, c.FPC(XPathNumber(s[i].S)), f)
	}
	return Val{K: KNum, F: d.stableF(f)}
}

// compare implements the XPath 1.0 comparison rules.
func (d *Doc) compare(op string, l, r Val) *sym.Term {
	c := d.C
	rel := op != "=" && op != "!="
	switch {
	case l.K == KNodeSet && r.K == KNodeSet:
		var disj []*sym.Term
		for i, a := range l.NS {
			if a.IsFalse() {
				continue
			}
			for j, b := range r.NS {
				if b.IsFalse() {
					continue
				}
				var t *sym.Term
				if rel {
					t = d.cmpNum(op, d.strToNum(d.NodeStr(i)), d.strToNum(d.NodeStr(j)))
				} else {
					t = d.strEq(d.NodeStr(i), d.NodeStr(j))
					if op == "!=" {
						t = c.Not(t)
					}
				}
				disj = append(disj, c.And(a, b, t))
			}
		}
		return c.Or(disj...)
	case l.K == KNodeSet || r.K == KNodeSet:
		ns, other, o := l, r, op
		if r.K == KNodeSet {
			ns, other, o = r, l, flipOp(op)
		}
		if other.K == KBool {
			b := d.Boolean(ns)
			if rel {
				return d.cmpNum(o, d.boolToNum(b), d.boolToNum(other.B))
			}
			t := c.Eq(b, other.B)
			if op == "!=" {
				t = c.Not(t)
			}
			return t
		}
		var disj []*sym.Term
		for i, a := range ns.NS {
			if a.IsFalse() {
				continue
			}
			var t *sym.Term
			if other.K == KNum || rel {
				t = d.cmpNum(o, d.strToNum(d.NodeStr(i)), d.Number(other))
			} else {
				t = d.strEq(d.NodeStr(i), other.S)
				if op == "!=" {
					t = c.Not(t)
				}
			}
			disj = append(disj, c.And(a, t))
		}
		return c.Or(disj...)
	}
	if rel {
		return d.cmpNum(op, d.Number(l), d.Number(r))
	}
	switch {
	case l.K == KBool || r.K == KBool:
		t := c.Eq(d.Boolean(l), d.Boolean(r))
		if op == "!=" {
			t = c.Not(t)
		}
		return t
	case l.K == KNum || r.K == KNum:
		return d.cmpNum(op, d.Number(l), d.Number(r))
	}
	t := d.strEq(l.S, r.S)
	if op == "!=" {
		t = c.Not(t)
	}
	return t
}

func (d *Doc) boolToNum(b *sym.Term) Val {
	return Val{K: KNum, F: d.C.Ite(b, d.C.FPC(1), d.C.FPC(0)), I: d.C.Ite(b, d.k(1), d.k(0))}
}

// Boolean: the XPath boolean() conversion.
func (d *Doc) Boolean(v Val) *sym.Term {
	c := d.C
	switch v.K {
	case KBool:
		return v.B
	case KNodeSet:
		return c.Or(v.NS...)
	case KNum:
		if v.I != nil {
			return c.Not(c.Eq(v.I, d.k(0)))
		}
		return c.And(c.Not(c.FpCmp(sym.OFpEq, v.F, c.FPC(0))), c.Not(c.FpIsNaN(v.F)))
	case KStr:
		var disj []*sym.Term
		for _, sc := range v.S {
			if len(sc.S) > 0 {
				disj = append(disj, sc.Cond)
			}
		}
		return c.Or(disj...)
	}
	panic("Boolean")
}

// String: the XPath string() conversion (node-sets, strings, booleans; numbers
// only when integer-valued and small).
func (d *Doc) String(v Val) []StrCase {
	c := d.C
	switch v.K {
	case KStr:
		return v.S
	case KBool:
		return []StrCase{{Cond: v.B, S: "true"}, {Cond: c.Not(v.B), S: "false"}}
	case KNodeSet:
		var out []StrCase
		none := c.T
		for i, a := range v.NS {
			if a.IsFalse() {
				continue
			}
			first := c.And(a, none)
			for _, sc := range d.NodeStr(i) {
				out = append(out, StrCase{Cond: c.And(first, sc.Cond), S: sc.S, B: sc.B})
			}
			none = c.And(none, c.Not(a))
		}
		out = append(out, StrCase{Cond: none, S: ""})
		return out
	}
	// a concrete number: the shortest decimal text that reads back as the same double,
	// never in exponent notation
	if v.F.IsConst() {
		x := math.Float64frombits(v.F.U)
		switch {
		case x != x:
			return []StrCase{{Cond: c.T, S: "NaN"}}
		case math.IsInf(x, 1):
			return []StrCase{{Cond: c.T, S: "Infinity"}}
		case math.IsInf(x, -1):
			return []StrCase{{Cond: c.T, S: "-Infinity"}}
		case x == 0:
			return []StrCase{{Cond: c.T, S: "0"}}
		}
		return []StrCase{{Cond: c.T, S: strconv.FormatFloat(x, 'f', -1, 64)}}
	}
	// numbers: NaN, and integer values below 10^6 in magnitude (plain decimal, "0" for both zeros)
	f := v.F
	isNaN := c.FpIsNaN(f)
	isInt := c.And(c.FpCmp(sym.OFpEq, c.FpRound(f, sym.RTZ), f), c.FpCmp(sym.OFpLt, c.FpAbs(f), c.FPC(1e6)))
	out := []StrCase{{Cond: isNaN, S: "NaN"}}
	neg := c.FpCmp(sym.OFpLt, f, c.FPC(0))
	mag := c.FpToSBV(c.FpAbs(f))
	guards, bytes := c.DecimalCases(mag, 6)
	for k := range guards {
		g := c.And(c.Not(isNaN), isInt, guards[k])
		zeros := strings.Repeat("0", k+1)
		out = append(out, StrCase{Cond: c.And(g, c.Not(neg)), S: zeros, B: bytes[k]})
		out = append(out, StrCase{Cond: c.And(g, neg), S: "-" + zeros, B: append([]*sym.Term{nil}, bytes[k]...)})
	}
	// anything else is outside the claim: the obligation is vacuous there
	d.OutsideClaim = c.Or(d.OutsideClaim, c.And(c.Not(isNaN), c.Not(isInt)))
	return out
}

// Number: the XPath number() conversion.
func (d *Doc) Number(v Val) Val {
	switch v.K {
	case KNum:
		return v
	case KBool:
		return d.boolToNum(v.B)
	case KStr:
		return d.strToNum(v.S)
	case KNodeSet:
		return d.strToNum(d.String(v))
	}
	panic("Number")
}

func (d *Doc) evalCall(e *Call, cx Ctx) Val {
	c := d.C
	arg := func(i int) Val { return d.Eval(e.Args[i], cx) }
	switch e.Name {
	case "true":
		return Val{K: KBool, B: c.T}
	case "false":
		return Val{K: KBool, B: c.F}
	case "not":
		return Val{K: KBool, B: c.Not(d.Boolean(arg(0)))}
	case "boolean":
		return Val{K: KBool, B: d.Boolean(arg(0))}
	case "count":
		v := arg(0)
		if v.K != KNodeSet {
			unsupported("count of non-node-set")
		}
		return d.numI(d.count(v.NS))
	case "position":
		if cx.Pos == nil {
			unsupported("position() outside a predicate")
		}
		return d.numI(cx.Pos)
	case "last":
		if cx.Size == nil {
			unsupported("last() outside a predicate")
		}
		return d.numI(cx.Size)
	case "number":
		if len(e.Args) == 0 {
			return d.strToNum(d.NodeStr(cx.Node))
		}
		return d.Number(arg(0))
	case "string":
		if len(e.Args) == 0 {
			return Val{K: KStr, S: d.NodeStr(cx.Node)}
		}
		return Val{K: KStr, S: d.String(arg(0))}
	case "sum":
		v := arg(0)
		if v.K != KNodeSet {
			unsupported("sum of non-node-set")
		}
		sum := c.FPC(0)
		for i, a := range v.NS {
			if a.IsFalse() {
				continue
			}
			// membership and each addend are structure-determined: substituting
			// them lets the sum fold to a constant
			sum = c.Ite(d.stableB(a), c.FpBin(sym.OFpAdd, sum, d.strToNum(d.NodeStr(i)).F), sum)
		}
		return Val{K: KNum, F: sum}
	case "floor":
		return Val{K: KNum, F: c.FpRound(d.Number(arg(0)).F, sym.RTN)}
	case "ceiling":
		return Val{K: KNum, F: c.FpRound(d.Number(arg(0)).F, sym.RTP)}
	case "string-length":
		var s []StrCase
		if len(e.Args) == 0 {
			s = d.NodeStr(cx.Node)
		} else {
			s = d.String(arg(0))
		}
		n := d.k(0)
		for i := len(s) - 1; i >= 0; i-- {
			n = c.Ite(s[i].Cond, d.k(len(s[i].S)), n)
		}
		return d.numI(n)
	case "local-name", "name", "namespace-uri":
		node := -1
		var cases []StrCase
		if len(e.Args) == 0 {
			node = cx.Node
			cases = d.nameCases(e.Name, node, c.T)
		} else {
			v := arg(0)
			if v.K != KNodeSet {
				unsupported("%s of non-node-set", e.Name)
			}
			none := c.T
			for i, a := range v.NS {
				if a.IsFalse() {
					continue
				}
				cases = append(cases, d.nameCases(e.Name, i, c.And(a, none))...)
				none = c.And(none, c.Not(a))
			}
			cases = append(cases, StrCase{Cond: none, S: ""})
		}
		return Val{K: KStr, S: cases}
	case "contains", "starts-with", "ends-with":
		a, b := d.String(arg(0)), d.String(arg(1))
		var disj []*sym.Term
		for _, x := range a {
			for _, y := range b {
				disj = append(disj, c.And(x.Cond, y.Cond, d.strPred(e.Name, x, y)))
			}
		}
		return Val{K: KBool, B: c.Or(disj...)}
	case "concat":
		cur := []StrCase{{Cond: c.T, S: ""}}
		for i := range e.Args {
			nx := d.String(arg(i))
			var out []StrCase
			for _, x := range cur {
				for _, y := range nx {
					cond := c.And(x.Cond, y.Cond)
					if cond.IsFalse() {
						continue
					}
					sc := StrCase{Cond: cond, S: x.S + y.S}
					if x.B != nil || y.B != nil {
						sc.B = make([]*sym.Term, len(x.S)+len(y.S))
						copy(sc.B, x.B)
						copy(sc.B[len(x.S):], y.B)
					}
					out = append(out, sc)
				}
			}
			cur = out
		}
		return Val{K: KStr, S: cur}
	}
	switch e.Name {
	case "matches", "replace":
		// only on concrete operands (pool values, literals): Go's regexp is the
		// definition; an invalid pattern is outside the fragment
		conc := func(cs []StrCase) {
			for _, sc := range cs {
				for _, b := range sc.B {
					if b != nil {
						unsupported("%s on symbolic strings", e.Name)
					}
				}
			}
		}
		subj, pat := d.String(arg(0)), d.String(arg(1))
		conc(subj)
		conc(pat)
		var rep []StrCase
		if e.Name == "replace" {
			rep = d.String(arg(2))
			conc(rep)
		} else {
			rep = []StrCase{{Cond: c.T}}
		}
		var disj []*sym.Term
		var out []StrCase
		for _, x := range subj {
			for _, p := range pat {
				g := c.And(x.Cond, p.Cond)
				if g.IsFalse() {
					continue
				}
				re, err := regexp.Compile(p.S)
				if err != nil {
					d.OutsideClaim = c.Or(d.OutsideClaim, g)
					continue
				}
				if e.Name == "matches" {
					if re.MatchString(x.S) {
						disj = append(disj, g)
					}
					continue
				}
				for _, r := range rep {
					out = append(out, StrCase{Cond: c.And(g, r.Cond), S: re.ReplaceAllString(x.S, NormReplacement(r.S, re.NumSubexp()))})
				}
			}
		}
		if e.Name == "matches" {
			return Val{K: KBool, B: c.Or(disj...)}
		}
		return Val{K: KStr, S: out}
	case "substring-before", "substring-after":
		return Val{K: KStr, S: d.substringIndex(e.Name == "substring-after", d.String(arg(0)), d.String(arg(1)))}
	case "substring":
		start := d.Number(arg(1))
		if len(e.Args) == 3 {
			ln := d.Number(arg(2))
			return Val{K: KStr, S: d.substring(d.String(arg(0)), start, &ln)}
		}
		return Val{K: KStr, S: d.substring(d.String(arg(0)), start, nil)}
	case "normalize-space":
		if len(e.Args) == 0 {
			return Val{K: KStr, S: d.normalizeSpace(d.NodeStr(cx.Node))}
		}
		return Val{K: KStr, S: d.normalizeSpace(d.String(arg(0)))}
	case "lower-case":
		return Val{K: KStr, S: d.lowerCase(d.String(arg(0)))}
	case "translate":
		return Val{K: KStr, S: d.translate(d.String(arg(0)), d.String(arg(1)), d.String(arg(2)))}
	case "string-join":
		v := arg(0)
		if v.K != KNodeSet {
			unsupported("string-join of non-node-set")
		}
		return Val{K: KStr, S: d.stringJoin(v.NS, d.String(arg(1)))}
	}
	unsupported("function %s", e.Name)
	return Val{}
}

// nameCases: the (local / qualified / namespace) name of node i under guard g.
func (d *Doc) nameCases(fn string, i int, g *sym.Term) []StrCase {
	c := d.C
	n := d.Nodes[i]
	if g.IsFalse() {
		return nil
	}
	if n.S == 0 {
		return []StrCase{{Cond: g, S: ""}}
	}
	var nameV, pfxV, uriV *sym.Term
	var isNamed *sym.Term
	if n.A >= 0 {
		nameV, pfxV, uriV = d.AName[n.S][n.A], d.APfx[n.S][n.A], d.AURI[n.S][n.A]
		isNamed = c.T
	} else {
		nameV, pfxV, uriV = d.Name[n.S], d.Pfx[n.S], d.URI[n.S]
		isNamed = c.Eq(d.Kind[n.S], d.k(1))
	}
	out := []StrCase{{Cond: c.And(g, c.Not(isNamed)), S: ""}}
	g = c.And(g, isNamed)
	for ni, nm := range d.Names {
		gn := c.And(g, c.Eq(nameV, d.k(ni)))
		switch fn {
		case "local-name":
			out = append(out, StrCase{Cond: gn, S: nm})
		case "name":
			for pi, px := range d.Prefixes {
				gp := gn
				if len(d.Prefixes) > 1 {
					gp = c.And(gn, c.Eq(pfxV, d.k(pi)))
				}
				q := nm
				if px != "" {
					q = px + ":" + nm
				}
				out = append(out, StrCase{Cond: gp, S: q})
			}
		}
	}
	if fn == "namespace-uri" {
		if d.HasURI {
			for ui, u := range d.URIs {
				gu := g
				if len(d.URIs) > 1 {
					gu = c.And(g, c.Eq(uriV, d.k(ui)))
				}
				out = append(out, StrCase{Cond: gu, S: u})
			}
		} else {
			for pi, px := range d.Prefixes {
				gp := g
				if len(d.Prefixes) > 1 {
					gp = c.And(g, c.Eq(pfxV, d.k(pi)))
				}
				out = append(out, StrCase{Cond: gp, S: px})
			}
		}
	}
	return out
}

// strPred: contains / starts-with / ends-with on two string cases.
func (d *Doc) strPred(fn string, x, y StrCase) *sym.Term {
	c := d.C
	matchAt := func(off int) *sym.Term {
		var conj []*sym.Term
		for i := 0; i < len(y.S); i++ {
			conj = append(conj, c.Eq(d.byteT(x, off+i), d.byteT(y, i)))
		}
		return c.And(conj...)
	}
	if len(y.S) > len(x.S) {
		return c.F
	}
	switch fn {
	case "starts-with":
		return matchAt(0)
	case "ends-with":
		return matchAt(len(x.S) - len(y.S))
	}
	var disj []*sym.Term
	for off := 0; off+len(y.S) <= len(x.S); off++ {
		disj = append(disj, matchAt(off))
	}
	return c.Or(disj...)
}
