// Package oracle: a declarative XPath 1.0 reference semantics over the
// symbolic document variables of /verif/harness/nav.go. It maps the
// generator's AST (never the engine's parser output) to sym terms.
package oracle

import (
	"fmt"
	"strconv"
	"strings"
)

type Expr interface {
	String() string
}

// NodeTest kinds: "name", "*", "node", "text", "comment".
type NodeTest struct {
	Kind   string
	Prefix string
	Name   string
}

func (t NodeTest) String() string {
	switch t.Kind {
	case "name":
		if t.Prefix != "" {
			return t.Prefix + ":" + t.Name
		}
		return t.Name
	case "*":
		return "*"
	}
	return t.Kind + "()"
}

type Step struct {
	Axis  string
	Test  NodeTest
	Preds []Expr
	// Abbrev selects an abbreviated spelling: "" (axis::test), "child" (bare
	// test), "@", ".", "..".
	Abbrev string
	// Seq (XPath 2.0 sequence step "(a, b)"): union of the member steps.
	Seq []Step
}

func (s Step) String() string {
	var sb strings.Builder
	if s.Seq != nil {
		parts := make([]string, len(s.Seq))
		for i, m := range s.Seq {
			parts[i] = m.String()
		}
		return "(" + strings.Join(parts, ", ") + ")"
	}
	switch s.Abbrev {
	case ".":
		sb.WriteString(".")
	case "..":
		sb.WriteString("..")
	case "@":
		sb.WriteString("@" + s.Test.String())
	case "child":
		sb.WriteString(s.Test.String())
	default:
		sb.WriteString(s.Axis + "::" + s.Test.String())
	}
	for _, p := range s.Preds {
		sb.WriteString("[" + p.String() + "]")
	}
	return sb.String()
}

// Path is a location path. Seps[i] is the separator written before Steps[i]:
// "/" or "//"; for a relative path Seps[0] == "". Base (optional) is a
// filter-expression the path continues from, e.g. (a|b)/c.
type Path struct {
	Abs   bool
	Base  Expr
	Steps []Step
	Seps  []string
}

func (p *Path) String() string {
	var sb strings.Builder
	if p.Base != nil {
		sb.WriteString(p.Base.String())
	}
	for i, s := range p.Steps {
		sep := p.Seps[i]
		sb.WriteString(sep)
		sb.WriteString(s.String())
	}
	if len(p.Steps) == 0 && p.Abs {
		return "/"
	}
	return sb.String()
}

// Group is a parenthesised expression with optional predicates: (E)[p]...
type Group struct {
	X     Expr
	Preds []Expr
}

func (g *Group) String() string {
	s := "(" + g.X.String() + ")"
	for _, p := range g.Preds {
		s += "[" + p.String() + "]"
	}
	return s
}

type Binary struct {
	Op   string // or and = != < <= > >= + - * div mod |
	L, R Expr
}

func (b *Binary) String() string {
	return b.L.String() + " " + b.Op + " " + b.R.String()
}

type Neg struct{ X Expr }

func (n *Neg) String() string { return "-" + n.X.String() }

// Num is a numeric literal; Hole != "" names a symbolic double (or with
// IntHole an integer-valued one) injected at the AST.
type Num struct {
	V       float64
	Hole    string
	IntHole bool
	Text    string // literal spelling (optional)
}

func (n *Num) String() string {
	if n.Hole != "" {
		return "900" + n.Hole[1:]
	}
	if n.Text != "" {
		return n.Text
	}
	return strconv.FormatFloat(n.V, 'f', -1, 64)
}

// Str is a string literal; Hole != "" names a symbolic string.
type Str struct {
	V    string
	Hole string
}

func (s *Str) String() string {
	if s.Hole != "" {
		return "'#" + s.Hole + "'"
	}
	if strings.Contains(s.V, "'") {
		return "\"" + s.V + "\""
	}
	return "'" + s.V + "'"
}

type Call struct {
	Name string
	Args []Expr
}

func (c *Call) String() string {
	parts := make([]string, len(c.Args))
	for i, a := range c.Args {
		parts[i] = a.String()
	}
	return c.Name + "(" + strings.Join(parts, ", ") + ")"
}

// holeDigits spells a hole name as decimal digits (marker literal 9<digits>).
func holeDigits(name string) string {
	var sb strings.Builder
	for i := 0; i < len(name); i++ {
		fmt.Fprintf(&sb, "%03d", name[i])
	}
	return sb.String()
}

// ---- construction helpers ----

func Name(n string) NodeTest { return NodeTest{Kind: "name", Name: n} }

func AxisStep(axis string, t NodeTest, preds ...Expr) Step {
	return Step{Axis: axis, Test: t, Preds: preds}
}

// Rel builds a relative path with "/" separators.
func Rel(steps ...Step) *Path {
	p := &Path{Steps: steps}
	for i := range steps {
		if i == 0 {
			p.Seps = append(p.Seps, "")
		} else {
			p.Seps = append(p.Seps, "/")
		}
	}
	return p
}

// AbsP builds an absolute path with "/" separators.
func AbsP(steps ...Step) *Path {
	p := &Path{Abs: true, Steps: steps}
	for range steps {
		p.Seps = append(p.Seps, "/")
	}
	return p
}

// BindHoles turns the marker literals 9001..9009 and '#S1'..'#S9' into holes.
func BindHoles(e Expr) Expr {
	switch x := e.(type) {
	case *Num:
		if x.Hole == "" && x.V >= 9001 && x.V <= 9009 && x.V == float64(int(x.V)) {
			return &Num{Hole: fmt.Sprintf("h%d", int(x.V)-9000)}
		}
	case *Str:
		if x.Hole == "" && len(x.V) == 3 && x.V[0] == '#' && x.V[1] == 'S' {
			return &Str{Hole: x.V[1:]}
		}
	case *Neg:
		x.X = BindHoles(x.X)
	case *Binary:
		x.L, x.R = BindHoles(x.L), BindHoles(x.R)
	case *Call:
		for i := range x.Args {
			x.Args[i] = BindHoles(x.Args[i])
		}
	case *Group:
		x.X = BindHoles(x.X)
		for i := range x.Preds {
			x.Preds[i] = BindHoles(x.Preds[i])
		}
	case *Path:
		if x.Base != nil {
			x.Base = BindHoles(x.Base)
		}
		for i := range x.Steps {
			bindStep(&x.Steps[i])
		}
	}
	return e
}

func bindStep(st *Step) {
	for i := range st.Preds {
		st.Preds[i] = BindHoles(st.Preds[i])
	}
	for i := range st.Seq {
		bindStep(&st.Seq[i])
	}
}
