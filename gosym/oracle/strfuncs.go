package oracle

import (
	"gosym/sym"
)

// String functions of XPath 1.0 (and lower-case / ends-with / string-join of 2.0)
// on guarded string cases. Every case has a concrete length; results whose
// length depends on symbolic data are split into further cases.

func (d *Doc) sub(sc StrCase, lo, hi int, cond *sym.Term) StrCase {
	out := StrCase{Cond: cond, S: sc.S[lo:hi]}
	if sc.B != nil {
		out.B = sc.B[lo:hi]
	}
	return out
}

func (d *Doc) isWS(t *sym.Term) *sym.Term {
	c := d.C
	return c.Or(c.Eq(t, c.BVC(8, ' ')), c.Eq(t, c.BVC(8, '\t')), c.Eq(t, c.BVC(8, '\n')), c.Eq(t, c.BVC(8, '\r')))
}

// matchAt: y occurs in x at offset off.
func (d *Doc) matchAt(x, y StrCase, off int) *sym.Term {
	c := d.C
	var conj []*sym.Term
	for i := 0; i < len(y.S); i++ {
		conj = append(conj, c.Eq(d.byteT(x, off+i), d.byteT(y, i)))
	}
	return c.And(conj...)
}

func (d *Doc) substringIndex(after bool, a, b []StrCase) []StrCase {
	c := d.C
	var out []StrCase
	for _, x := range a {
		for _, y := range b {
			g := c.And(x.Cond, y.Cond)
			if g.IsFalse() {
				continue
			}
			if len(y.S) == 0 {
				// substring-before(s, "") = "", substring-after(s, "") = s
				if after {
					out = append(out, d.sub(x, 0, len(x.S), g))
				} else {
					out = append(out, StrCase{Cond: g, S: ""})
				}
				continue
			}
			none := g
			for off := 0; off+len(y.S) <= len(x.S); off++ {
				m := d.matchAt(x, y, off)
				first := c.And(none, m)
				if after {
					out = append(out, d.sub(x, off+len(y.S), len(x.S), first))
				} else {
					out = append(out, d.sub(x, 0, off, first))
				}
				none = c.And(none, c.Not(m))
			}
			out = append(out, StrCase{Cond: none, S: ""})
		}
	}
	return out
}

// roundHalfUp: XPath round (nearest, ties toward +infinity) as an FP term.
func (d *Doc) roundHalfUp(f *sym.Term) *sym.Term {
	c := d.C
	fl := c.FpRound(f, sym.RTN)
	up := c.FpCmp(sym.OFpLe, c.FPC(0.5), c.FpBin(sym.OFpSub, f, fl))
	return c.Ite(up, c.FpBin(sym.OFpAdd, fl, c.FPC(1)), fl)
}

// substring(s, start[, length]): the characters at positions p with
// round(start) <= p < round(start) + round(length).
func (d *Doc) substring(s []StrCase, start Val, length *Val) []StrCase {
	c := d.C
	first := d.roundHalfUp(start.F)
	var last *sym.Term
	if length != nil {
		last = c.FpBin(sym.OFpAdd, first, d.roundHalfUp(length.F))
	}
	var out []StrCase
	for _, x := range s {
		L := len(x.S)
		keep := make([]*sym.Term, L+2)
		for p := 1; p <= L; p++ {
			k := c.FpCmp(sym.OFpLe, first, c.FPC(float64(p)))
			if last != nil {
				k = c.And(k, c.FpCmp(sym.OFpLt, c.FPC(float64(p)), last))
			}
			keep[p] = k
		}
		// the kept positions form one contiguous range [lo, hi)
		for lo := 1; lo <= L; lo++ {
			for hi := lo + 1; hi <= L+1; hi++ {
				conj := []*sym.Term{x.Cond}
				for p := 1; p <= L; p++ {
					if p >= lo && p < hi {
						conj = append(conj, keep[p])
					} else {
						conj = append(conj, c.Not(keep[p]))
					}
				}
				out = append(out, d.sub(x, lo-1, hi-1, c.And(conj...)))
			}
		}
		conj := []*sym.Term{x.Cond}
		for p := 1; p <= L; p++ {
			conj = append(conj, c.Not(keep[p]))
		}
		out = append(out, StrCase{Cond: c.And(conj...), S: ""})
	}
	return out
}

func (d *Doc) normalizeSpace(s []StrCase) []StrCase {
	c := d.C
	var out []StrCase
	for _, x := range s {
		L := len(x.S)
		for pat := 0; pat < 1<<uint(L); pat++ {
			conj := []*sym.Term{x.Cond}
			for i := 0; i < L; i++ {
				w := d.isWS(d.byteT(x, i))
				if pat&(1<<uint(i)) != 0 {
					conj = append(conj, w)
				} else {
					conj = append(conj, c.Not(w))
				}
			}
			g := c.And(conj...)
			if g.IsFalse() {
				continue
			}
			var bs []byte
			var ts []*sym.Term
			pendingSpace := false
			for i := 0; i < L; i++ {
				if pat&(1<<uint(i)) != 0 {
					if len(bs) > 0 {
						pendingSpace = true
					}
					continue
				}
				if pendingSpace {
					bs = append(bs, ' ')
					ts = append(ts, nil)
					pendingSpace = false
				}
				bs = append(bs, x.S[i])
				if x.B != nil {
					ts = append(ts, x.B[i])
				} else {
					ts = append(ts, nil)
				}
			}
			out = append(out, StrCase{Cond: g, S: string(bs), B: ts})
		}
	}
	return out
}

func (d *Doc) lowerCase(s []StrCase) []StrCase {
	c := d.C
	var out []StrCase
	for _, x := range s {
		y := StrCase{Cond: x.Cond, S: x.S, B: make([]*sym.Term, len(x.S))}
		bs := []byte(x.S)
		for i := range bs {
			if x.B != nil && x.B[i] != nil {
				t := x.B[i]
				up := c.And(c.BvCmp(sym.OBvUle, c.BVC(8, 'A'), t), c.BvCmp(sym.OBvUle, t, c.BVC(8, 'Z')))
				y.B[i] = c.Ite(up, c.BvBin(sym.OBvAdd, t, c.BVC(8, 32)), t)
			}
			if bs[i] >= 'A' && bs[i] <= 'Z' {
				bs[i] += 32
			}
		}
		y.S = string(bs)
		out = append(out, y)
	}
	return out
}

// translate(s, from, to): each character of s that occurs in from is replaced by
// the character at the same position of to, or removed if to is shorter; the
// first occurrence in from decides.
func (d *Doc) translate(s, from, to []StrCase) []StrCase {
	c := d.C
	var out []StrCase
	for _, x := range s {
		for _, f := range from {
			for _, t := range to {
				g := c.And(x.Cond, f.Cond, t.Cond)
				if g.IsFalse() {
					continue
				}
				type partial struct {
					cond *sym.Term
					bs   []byte
					ts   []*sym.Term
				}
				cur := []partial{{cond: g}}
				for i := 0; i < len(x.S); i++ {
					b := d.byteT(x, i)
					var next []partial
					for _, p := range cur {
						none := p.cond
						for j := 0; j < len(f.S); j++ {
							hit := c.And(none, c.Eq(d.byteT(f, j), b))
							if !hit.IsFalse() {
								q := partial{cond: hit, bs: append([]byte{}, p.bs...), ts: append([]*sym.Term{}, p.ts...)}
								if j < len(t.S) {
									q.bs = append(q.bs, t.S[j])
									var tt *sym.Term
									if t.B != nil {
										tt = t.B[j]
									}
									q.ts = append(q.ts, tt)
								}
								next = append(next, q)
							}
							none = c.And(none, c.Not(c.Eq(d.byteT(f, j), b)))
						}
						if !none.IsFalse() {
							q := partial{cond: none, bs: append(append([]byte{}, p.bs...), x.S[i]), ts: append([]*sym.Term{}, p.ts...)}
							var xt *sym.Term
							if x.B != nil {
								xt = x.B[i]
							}
							q.ts = append(q.ts, xt)
							next = append(next, q)
						}
					}
					cur = next
				}
				for _, p := range cur {
					out = append(out, StrCase{Cond: p.cond, S: string(p.bs), B: p.ts})
				}
			}
		}
	}
	return out
}

// stringJoin: values of the nodes in document order separated by sep.
func (d *Doc) stringJoin(ns []*sym.Term, sep []StrCase) []StrCase {
	c := d.C
	var out []StrCase
	for _, sp := range sep {
		type partial struct {
			cond  *sym.Term
			s     string
			b     []*sym.Term
			first bool
		}
		cur := []partial{{cond: sp.Cond, first: true}}
		for i, a := range ns {
			if a.IsFalse() {
				continue
			}
			var next []partial
			for _, p := range cur {
				skip := c.And(p.cond, c.Not(a))
				if !skip.IsFalse() {
					next = append(next, partial{cond: skip, s: p.s, b: p.b, first: p.first})
				}
				for _, v := range d.NodeStr(i) {
					g := c.And(p.cond, a, v.Cond)
					if g.IsFalse() {
						continue
					}
					q := partial{cond: g, s: p.s, b: append([]*sym.Term{}, p.b...)}
					if !p.first {
						q.s += sp.S
						for k := range sp.S {
							var t *sym.Term
							if sp.B != nil {
								t = sp.B[k]
							}
							q.b = append(q.b, t)
						}
					}
					q.s += v.S
					for k := range v.S {
						var t *sym.Term
						if v.B != nil {
							t = v.B[k]
						}
						q.b = append(q.b, t)
					}
					next = append(next, q)
				}
			}
			cur = next
		}
		for _, p := range cur {
			out = append(out, StrCase{Cond: p.cond, S: p.s, B: p.b})
		}
	}
	return out
}
