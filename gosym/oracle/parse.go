package oracle

import (
	"fmt"
	"strconv"
	"strings"
)

// Parse reads the XPath 1.0 subset used by the generators (plus the sequence
// step "(a, b)") into the oracle AST. It is written directly from the XPath 1.0
// grammar and shares nothing with the engine's parser.
func Parse(src string) (e Expr, err error) {
	p := &parser{src: src}
	defer func() {
		if r := recover(); r != nil {
			if pe, ok := r.(parseError); ok {
				err = fmt.Errorf("oracle parse %q: %s (at %d)", src, string(pe), p.tokPos)
				return
			}
			panic(r)
		}
	}()
	p.next()
	e = p.parseOr()
	if p.tok != tEOF {
		p.fail("unexpected trailing input")
	}
	return e, nil
}

func MustParse(src string) Expr {
	e, err := Parse(src)
	if err != nil {
		panic(err)
	}
	return e
}

type parseError string

type tokKind int

const (
	tEOF tokKind = iota
	tName      // NCName or QName (val), or "*" handled separately
	tNum
	tStr
	tOp // punctuation / operator symbol in val
	tAxis      // name followed by ::
	tFunc      // name followed by (   (not a node type)
	tNodeType  // node|text|comment followed by (
)

type parser struct {
	src     string
	pos     int
	tok     tokKind
	val     string
	tokPos  int
	prevOpd bool // previous token can end an operand (for '*' and operator-name disambiguation)
}

func (p *parser) fail(msg string) { panic(parseError(msg)) }

func isNameStart(c byte) bool {
	return c == '_' || (c >= 'a' && c <= 'z') || (c >= 'A' && c <= 'Z') || c >= 0x80
}
func isNameChar(c byte) bool {
	return isNameStart(c) || c == '-' || c == '.' || (c >= '0' && c <= '9')
}
func isSpace(c byte) bool { return c == ' ' || c == '\t' || c == '\n' || c == '\r' }

func (p *parser) skipWS() {
	for p.pos < len(p.src) && isSpace(p.src[p.pos]) {
		p.pos++
	}
}

func (p *parser) next() {
	// XPath 1.0 §3.7 disambiguation: if there is a preceding token and it is not
	// one of @ :: ( [ , or an operator, then * is multiply and an NCName is an operator name.
	prevOpd := false
	switch p.tok {
	case tName, tNum, tStr:
		prevOpd = true
	case tOp:
		prevOpd = p.val == ")" || p.val == "]" || p.val == "." || p.val == ".." || p.val == "*name"
	}
	p.skipWS()
	p.tokPos = p.pos
	if p.pos >= len(p.src) {
		p.tok, p.val = tEOF, ""
		return
	}
	c := p.src[p.pos]
	switch {
	case c == '"' || c == '\'':
		end := strings.IndexByte(p.src[p.pos+1:], c)
		if end < 0 {
			p.fail("unclosed string")
		}
		p.tok, p.val = tStr, p.src[p.pos+1:p.pos+1+end]
		p.pos += end + 2
	case c >= '0' && c <= '9' || (c == '.' && p.pos+1 < len(p.src) && p.src[p.pos+1] >= '0' && p.src[p.pos+1] <= '9'):
		st := p.pos
		for p.pos < len(p.src) && p.src[p.pos] >= '0' && p.src[p.pos] <= '9' {
			p.pos++
		}
		if p.pos < len(p.src) && p.src[p.pos] == '.' {
			p.pos++
			for p.pos < len(p.src) && p.src[p.pos] >= '0' && p.src[p.pos] <= '9' {
				p.pos++
			}
		}
		p.tok, p.val = tNum, p.src[st:p.pos]
	case isNameStart(c):
		st := p.pos
		for p.pos < len(p.src) && isNameChar(p.src[p.pos]) {
			p.pos++
		}
		// QName
		if p.pos+1 < len(p.src) && p.src[p.pos] == ':' && p.src[p.pos+1] != ':' && (isNameStart(p.src[p.pos+1]) || p.src[p.pos+1] == '*') {
			p.pos++
			if p.src[p.pos] == '*' {
				p.pos++
			} else {
				for p.pos < len(p.src) && isNameChar(p.src[p.pos]) {
					p.pos++
				}
			}
		}
		name := p.src[st:p.pos]
		if prevOpd {
			switch name {
			case "and", "or", "mod", "div":
				p.tok, p.val = tOp, name
				return
			}
		}
		save := p.pos
		p.skipWS()
		if strings.HasPrefix(p.src[p.pos:], "::") {
			p.pos += 2
			p.tok, p.val = tAxis, name
			return
		}
		if p.pos < len(p.src) && p.src[p.pos] == '(' {
			switch name {
			case "node", "text", "comment", "processing-instruction":
				p.tok, p.val = tNodeType, name
			default:
				p.tok, p.val = tFunc, name
			}
			return
		}
		p.pos = save
		p.tok, p.val = tName, name
	default:
		two := ""
		if p.pos+1 < len(p.src) {
			two = p.src[p.pos : p.pos+2]
		}
		switch two {
		case "//", "..", "!=", "<=", ">=":
			p.tok, p.val = tOp, two
			p.pos += 2
			return
		}
		if c == '*' && !prevOpd {
			p.tok, p.val = tOp, "*name"
			p.pos++
			return
		}
		if strings.IndexByte("/()[]@,|+-=<>*.$", c) < 0 {
			p.fail(fmt.Sprintf("unexpected character %q", c))
		}
		p.tok, p.val = tOp, string(c)
		p.pos++
	}
}

func (p *parser) isOp(v string) bool { return p.tok == tOp && p.val == v }

func (p *parser) expectOp(v string) {
	if !p.isOp(v) {
		p.fail("expected " + v)
	}
	p.next()
}

func (p *parser) binLevel(ops []string, sub func() Expr) Expr {
	l := sub()
	for {
		found := ""
		for _, o := range ops {
			if p.isOp(o) {
				found = o
			}
		}
		if found == "" {
			return l
		}
		p.next()
		l = &Binary{Op: found, L: l, R: sub()}
	}
}

func (p *parser) parseOr() Expr  { return p.binLevel([]string{"or"}, p.parseAnd) }
func (p *parser) parseAnd() Expr { return p.binLevel([]string{"and"}, p.parseEq) }
func (p *parser) parseEq() Expr  { return p.binLevel([]string{"=", "!="}, p.parseRel) }
func (p *parser) parseRel() Expr { return p.binLevel([]string{"<", "<=", ">", ">="}, p.parseAdd) }
func (p *parser) parseAdd() Expr { return p.binLevel([]string{"+", "-"}, p.parseMul) }
func (p *parser) parseMul() Expr { return p.binLevel([]string{"*", "div", "mod"}, p.parseUnary) }

func (p *parser) parseUnary() Expr {
	// -(-x) is x for every IEEE value, so pairs of minus signs cancel
	neg := false
	for p.isOp("-") {
		p.next()
		neg = !neg
	}
	x := p.parseUnion()
	if neg {
		return &Neg{X: x}
	}
	return x
}

func (p *parser) parseUnion() Expr { return p.binLevel([]string{"|"}, p.parsePathExpr) }

func (p *parser) isStepStart() bool {
	switch p.tok {
	case tName, tAxis, tNodeType:
		return true
	case tOp:
		return p.val == "." || p.val == ".." || p.val == "@" || p.val == "*name"
	}
	return false
}

func (p *parser) parsePathExpr() Expr {
	// filter expression first?
	if p.tok == tNum || p.tok == tStr || p.tok == tFunc || p.isOp("(") || p.isOp("$") {
		prim := p.parsePrimary()
		var preds []Expr
		for p.isOp("[") {
			preds = append(preds, p.parsePred())
		}
		var base Expr = prim
		if g, ok := prim.(*Group); ok {
			g.Preds = append(g.Preds, preds...)
		} else if len(preds) > 0 {
			base = &Group{X: prim, Preds: preds}
		}
		if p.isOp("/") || p.isOp("//") {
			path := &Path{Base: base}
			p.parseRelative(path)
			return path
		}
		return base
	}
	path := &Path{}
	if p.isOp("/") {
		path.Abs = true
		p.next()
		if !p.isStepStart() && !p.isOp("(") {
			return path
		}
		path.Seps = append(path.Seps, "/")
		path.Steps = append(path.Steps, p.parseStep())
	} else if p.isOp("//") {
		path.Abs = true
		p.next()
		path.Seps = append(path.Seps, "//")
		path.Steps = append(path.Steps, p.parseStep())
	} else {
		path.Seps = append(path.Seps, "")
		path.Steps = append(path.Steps, p.parseStep())
	}
	p.parseRelative(path)
	return path
}

func (p *parser) parseRelative(path *Path) {
	for p.isOp("/") || p.isOp("//") {
		sep := p.val
		p.next()
		path.Seps = append(path.Seps, sep)
		path.Steps = append(path.Steps, p.parseStep())
	}
}

func (p *parser) parsePred() Expr {
	p.expectOp("[")
	e := p.parseOr()
	p.expectOp("]")
	return e
}

func (p *parser) parseNodeTest() NodeTest {
	switch {
	case p.tok == tNodeType:
		k := p.val
		p.next()
		p.expectOp("(")
		p.expectOp(")")
		return NodeTest{Kind: k}
	case p.isOp("*name"):
		p.next()
		return NodeTest{Kind: "*"}
	case p.tok == tName:
		n := p.val
		p.next()
		if i := strings.IndexByte(n, ':'); i >= 0 {
			return NodeTest{Kind: "name", Prefix: n[:i], Name: n[i+1:]}
		}
		return NodeTest{Kind: "name", Name: n}
	}
	p.fail("expected node test")
	return NodeTest{}
}

func (p *parser) parseStep() Step {
	var st Step
	switch {
	case p.isOp("("):
		// sequence step
		p.next()
		st.Seq = append(st.Seq, p.parseStep())
		for p.isOp(",") {
			p.next()
			st.Seq = append(st.Seq, p.parseStep())
		}
		p.expectOp(")")
		return st
	case p.isOp("."):
		p.next()
		st = Step{Axis: "self", Test: NodeTest{Kind: "node"}, Abbrev: "."}
	case p.isOp(".."):
		p.next()
		st = Step{Axis: "parent", Test: NodeTest{Kind: "node"}, Abbrev: ".."}
	case p.isOp("@"):
		p.next()
		st = Step{Axis: "attribute", Abbrev: "@"}
		st.Test = p.parseNodeTest()
	case p.tok == tAxis:
		st = Step{Axis: p.val}
		if _, ok := ForwardAxis[st.Axis]; !ok {
			p.fail("unknown axis " + st.Axis)
		}
		p.next()
		st.Test = p.parseNodeTest()
	default:
		st = Step{Axis: "child", Abbrev: "child"}
		st.Test = p.parseNodeTest()
	}
	for p.isOp("[") {
		st.Preds = append(st.Preds, p.parsePred())
	}
	return st
}

func (p *parser) parsePrimary() Expr {
	switch {
	case p.tok == tNum:
		f, err := strconv.ParseFloat(p.val, 64)
		if err != nil {
			p.fail("bad number")
		}
		n := &Num{V: f, Text: p.val}
		p.next()
		return n
	case p.tok == tStr:
		s := &Str{V: p.val}
		p.next()
		return s
	case p.isOp("("):
		p.next()
		e := p.parseOr()
		p.expectOp(")")
		return &Group{X: e}
	case p.tok == tFunc:
		c := &Call{Name: p.val}
		p.next()
		p.expectOp("(")
		if !p.isOp(")") {
			c.Args = append(c.Args, p.parseOr())
			for p.isOp(",") {
				p.next()
				c.Args = append(c.Args, p.parseOr())
			}
		}
		p.expectOp(")")
		return c
	}
	p.fail("expected primary expression")
	return nil
}
