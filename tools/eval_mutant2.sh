#!/bin/bash
# usage: eval_mutant2.sh <root> <property id> <k> <seeded suffix> [check ids...]
# Like eval_mutant.sh but never touches /repo: the change is applied in the scratch
# worktree <root>/<id> and the check is pointed at it with GOSYM_REPO_DIR; evidence and
# replays go to a scratch verif dir. Several evaluations can therefore run side by side.
export GOFLAGS=-mod=mod GOPROXY=off GOSUMDB=off GOTOOLCHAIN=local
root=$1; id=$2; k=$3; sfx=$4; shift 4; checks=${@:-$id}
W=$root/$id; S=/verif/seeded/$id-$sfx
[ -f $W/mutant$k.diff ] || { echo "no mutant$k.diff in $W"; exit 2; }
cd $W && git checkout -q -- . && rm -f mutant*_demo_test.go
cp mutant${k}_demo_test.go.txt mutant${k}_demo_test.go
go test -vet=off -count=1 -run "TestMutant${k}Demo" . > $root/$id.pristine.log 2>&1; pristine=$?
rm -f mutant${k}_demo_test.go
git apply mutant$k.diff || { echo "diff does not apply"; exit 2; }
go test -vet=off -count=1 ./... > $root/$id.suite.log 2>&1; suite=$?
cp mutant${k}_demo_test.go.txt mutant${k}_demo_test.go
go test -vet=off -count=1 -run "TestMutant${k}Demo" . > $root/$id.demo.log 2>&1; demo=$?
rm -f mutant${k}_demo_test.go
echo "confirm $id m$k: suite_with_mutant=$suite (0 expected) demo_with_mutant=$demo (non-0 expected) demo_pristine=$pristine (0 expected)"
if [ $suite -ne 0 ] || [ $demo -eq 0 ] || [ $pristine -ne 0 ]; then git checkout -q -- .; echo "NOT CONFIRMED"; exit 3; fi
mkdir -p $S && cp $W/mutant$k.diff $S/patch.diff && cp $W/mutant${k}_demo_test.go.txt $S/demo_test.go.txt && cp $W/mutant$k.md $S/description.md
V=$root/verif-$id-$k; rm -rf $V; mkdir -p $V
ln -s /verif/harness $V/harness; ln -s /verif/known_findings.txt $V/known_findings.txt
results=""
for c in $checks; do
  GOSYM_REPO_DIR=$W GOSYM_VERIF_DIR=$V timeout 3000 /verif/bin/gosym check $c --tier quick > $S/check_$c.log 2>&1; rc=$?
  nv=$(grep -c "^VIOLATION" $S/check_$c.log)
  echo "  check $c on $id m$k ($sfx): exit=$rc violations=$nv $(grep -m1 -A1 '^VIOLATION' $S/check_$c.log | tail -1 | cut -c1-120)"
  results="$results{\"check\":\"$c\",\"exit\":$rc,\"violations\":$nv},"
done
git checkout -q -- .; rm -rf $V
python3 - "$id" "$k" "$S" "${results%,}" <<'PY'
import json,sys
pid,k,S,res=sys.argv[1:5]
desc=open(S+'/description.md').read()
meta={"property":pid,"mutant":S.rsplit('-',1)[1],"breaks":pid,"description":desc.strip().split('\n')[0][:300],
 "needs_to_manifest":desc.strip()[:1200],
 "confirmed":{"existing_suite_passes_with_change":True,"demo_fails_with_change":True,"demo_passes_without_change":True,
   "how":"tools/eval_mutant2.sh: git apply in a scratch worktree, go test ./..., go test -run TestMutantKDemo with and without the change"},
 "checks_run_with_change_applied":json.loads('['+res+']')}
json.dump(meta,open(S+'/meta.json','w'),indent=1)
PY
