#!/bin/bash
# run from a snapshot of /verif (vp run): builds gosym there and runs the given thorough checks, results in ./thorough_results.txt
export GOFLAGS=-mod=mod GOPROXY=off GOSUMDB=off GOTOOLCHAIN=local GOSYM_VERIF_DIR=$PWD
mkdir -p bin && (cd gosym && go build -o ../bin/gosym ./cmd/gosym) || exit 2
for id in "$@"; do
  s=$(date +%s)
  timeout ${THOROUGH_TIMEOUT:-5400} ./bin/gosym check $id --tier thorough -v > thorough_$id.log 2> thorough_$id.progress; rc=$?
  echo "$id exit=$rc $(( $(date +%s)-s ))s viol=$(grep -c '^VIOLATION' thorough_$id.log) incomplete=$(grep -c '^INCOMPLETE' thorough_$id.log) $(grep '^property=' thorough_$id.log | cut -c1-260)" | tee -a thorough_results.txt
  grep -E '^VIOLATION|^  instance|^INCONCLUSIVE|^ENCODER' thorough_$id.log | head -20 >> thorough_results.txt
done
