#!/bin/bash
# usage: check_seeded.sh [-j N] [dir ...]   (default: every /verif/seeded/*)
# Applies each seeded change to a scratch worktree of /repo's HEAD (never to /repo itself),
# points the quick check of the property it breaks at that worktree, removes the worktree.
export GOFLAGS=-mod=mod GOPROXY=off GOSUMDB=off GOTOOLCHAIN=local
J=1; if [ "$1" = "-j" ]; then J=$2; shift 2; fi
dirs=${@:-/verif/seeded/*}
one() {
  S=$(readlink -f $1); [ -f $S/patch.diff ] || return
  n=$(basename $S); id=$(echo $n | cut -d- -f1)
  W=$(mktemp -d /tmp/seedwt.XXXXXX); V=$(mktemp -d /tmp/seedv.XXXXXX)
  git -C /repo worktree add -q --detach $W HEAD || { echo "$n: cannot create worktree"; return; }
  if git -C $W apply $S/patch.diff; then
    ln -s /verif/harness $V/harness; ln -s /verif/known_findings.txt $V/known_findings.txt
    GOSYM_REPO_DIR=$W GOSYM_VERIF_DIR=$V timeout 3000 /verif/bin/gosym check $id --tier quick > $S/check_$id.log 2>&1; rc=$?
    echo "$n: check $id exit=$rc violations=$(grep -c '^VIOLATION' $S/check_$id.log) $(grep -m1 -A1 '^VIOLATION' $S/check_$id.log | tail -1 | cut -c1-110)"
  else
    echo "$n: patch does not apply"
  fi
  git -C /repo worktree remove --force $W; rm -rf $V $W
}
export -f one
printf '%s\n' $dirs | xargs -P $J -I{} bash -c 'one {}'
