#!/bin/bash
# usage: check_seeded.sh [dir ...]   (default: every /verif/seeded/*)
# applies each seeded change to /repo, runs the quick check of the property it breaks, undoes the change.
export GOFLAGS=-mod=mod GOPROXY=off GOSUMDB=off GOTOOLCHAIN=local
dirs=${@:-/verif/seeded/*}
git -C /repo status --short | grep -q . && { echo "/repo not clean"; exit 2; }
for S in $dirs; do
  [ -f $S/patch.diff ] || continue
  id=$(basename $S | cut -d- -f1)
  git -C /repo apply $S/patch.diff || { echo "$(basename $S): patch does not apply"; continue; }
  timeout 3000 /verif/bin/gosym check $id --tier quick > $S/check_$id.log 2>&1; rc=$?
  git -C /repo checkout -- .
  echo "$(basename $S): check $id exit=$rc violations=$(grep -c '^VIOLATION' $S/check_$id.log) $(grep -m1 -A1 '^VIOLATION' $S/check_$id.log | tail -1 | cut -c1-110)"
done
