#!/bin/bash
# runs every registered quick (or $1=thorough) check on the current tree and prints one line each
tier=${1:-quick}
for id in C01 C02 C03 C04 C05 C06 C07 C08 C09 C10 C11 C12 C13 C14 C15 C16 C17; do
  s=$(date +%s)
  timeout 7200 /verif/bin/gosym check $id --tier $tier > /tmp/runall_$id.log 2>&1; rc=$?
  e=$(date +%s)
  echo "$id exit=$rc $((e-s))s viol=$(grep -c '^VIOLATION' /tmp/runall_$id.log) known=$(grep -c '^KNOWN-FINDING' /tmp/runall_$id.log) incomplete=$(grep -c '^INCOMPLETE' /tmp/runall_$id.log) $(grep -E '^INCONCLUSIVE|^ENCODER' /tmp/runall_$id.log | head -1 | cut -c1-160)"
done
