#!/usr/bin/env python3
"""Regenerates /verif/MANIFEST.json from the table below (claimed checks) and
the not_applicable reasons; properties.jsonl is only read."""
import json
props=[json.loads(l) for l in open('/verif/properties.jsonl')]
NOTE=("Trusts go/ssa as the meaning of the source, gosym's interpreter (sampled native replays of path models; every reported "
      "violation is replayed natively), the SMT solver, the navigator contract of harness/nav.go and, where used, the reference "
      "semantics in gosym/oracle. Expressions are enumerated (finite generated family); documents, contexts and literal values are "
      "quantified by the solver within the stated bounds.")
TECH="concolic symbolic execution of go/ssa + SMT (z3) obligation per path vs reference XPath semantics"
CLAIMED={
 "C01":("Bounded symbolic model checking of the real code: Compile+Select are executed symbolically from go/ssa over a fully symbolic document (<= N slots, <= A attributes per element) and symbolic context; on every explored path z3 decides PC AND NOT(set(Select) = XPath reference). Holds for every document/context within the bounds, for each enumerated path expression.",TECH),
 "C02":("Bounded symbolic model checking of the real code: steps and parenthesised paths with boolean predicates (nesting <= 2) run symbolically over a symbolic document (shape, kinds, names, attributes, node values from a pool) and context; per path z3 decides set(Select) = reference set, so a candidate is kept iff its predicates are true, independent of earlier candidates.",TECH),
 "C03":("Bounded symbolic model checking: child-axis steps with a positional first predicate (and optional boolean predicate) and (E)[n] forms run symbolically over a symbolic document; per path z3 decides equality with the reference proximity-position semantics.",TECH),
 "C04":("Inductive frame condition + bounded differential on the real code: a frame monitor inside the symbolic executor shows that one Select/Evaluate call (symbolic document, context, abandoned after a symbolic number of results) makes no value-changing store to state reachable from the compiled expression or package globals (covers histories of any length), and after a symbolic history of 1-2 calls the expression observes what a fresh compile observes.","concolic symbolic execution of go/ssa with a shared-store (frame) monitor; one-step inductive frame condition + two-run differential per path, paths enumerated by SMT (z3)"),
 "C05":("Non-interference as sufficient condition, checked on the real code by symbolic execution: one Select/Evaluate call performs no store at all to shared state outside a sync lock, so every interleaving equals a sequential run; feasible witnesses are replayed from 4 goroutines under go test -race and only a reported race / differing result is a violation. Interleavings themselves are not explored.","concolic symbolic execution of go/ssa with shared-store + lockset monitor (non-interference); witnesses replayed under the race detector"),
 "C07":("Bounded symbolic model checking of comparison and boolean operators: L op R over all claimed operand-type combinations with symbolic doubles (incl. NaN, infinities, signed zeros), symbolic string bytes and node-sets over a symbolic document; per path z3 (FP+BV) decides result = XPath reference, and any panic leaving the comparison is a violation.","concolic symbolic execution of go/ssa + SMT (z3, FloatingPoint+BitVec) value obligation per path vs reference XPath semantics"),
 "C08":("Bounded symbolic model checking of arithmetic: expression trees over + - * div, unary minus, mod (stated domain), floor, ceiling, number(), count(), sum(), string-length(), string() with symbolic IEEE doubles and a symbolic document; per path z3 decides that the returned float64 is bit-for-bit the reference double (NaN class identified), and string() of NaN / integers below 10^6 is the plain decimal text.","concolic symbolic execution of go/ssa + SMT (z3, FloatingPoint+BitVec) value obligation per path vs reference XPath semantics"),
 "C09":("Bounded symbolic model checking of the string functions: symbolic strings of every length up to L (free XML-legal ASCII bytes), numeric arguments (any finite double where one argument is involved, a case-split grid of quarter steps for substring start/length) and node-set arguments over a symbolic document; per path z3 decides result = XPath reference and that no fault/panic path is feasible.","concolic symbolic execution of go/ssa (std string helpers via validated Go models) + SMT (z3, BitVec bytes + FloatingPoint) value obligation per path vs reference XPath semantics"),
 "C11":("Bounded symbolic model checking: unions and sequence steps over all axes run symbolically over a symbolic document; per path z3 decides set equality with the reference union and the harness asserts each node once. An identity kernel runs the same code with element names / text values as free byte strings (FNV abstracted to equality of key bytes), so two different nodes sharing a key is found by the solver.",TECH),
 "C12":("Bounded symbolic model checking of iterator protocol and sequence relations: Select / Evaluate / count() / reverse() and a symbolic number of extra MoveNext calls on fresh compiles over one symbolic document; relations asserted on every explored path, set part decided by z3 against the reference.","concolic symbolic execution of go/ssa; sequence relations asserted per explored path, set obligation by SMT (z3)"),
 "C13":("Bounded symbolic model checking of metamorphic relations (absolute paths ignore the start node; relative paths compose with /node()[k]... addresses; P[true()], (P), P|P, not(not(P))): two real engine runs per symbolic path, relation asserted on every path, paths enumerated by z3.","concolic symbolic execution of go/ssa with SMT-decided path exploration; metamorphic relation asserted per path"),
 "C15":("Bounded symbolic model checking of fault freedom: a token-level family of accepted expressions with fully symbolic numeric literals (any double), symbolic strings and a symbolic document; every fault branch of the executor (nil dereference, bounds, integer division, type assertion) is a solver-decided branch, escaping panics are classified (run-time / foreign / package-raised), result types are checked, and step-budget exhaustion is replayed natively as a non-termination candidate.","concolic symbolic execution of go/ssa with first-class fault branches and panic classification; feasibility decided by SMT (z3)"),
}
DESIGN={k:f"DESIGN.md §5 {k}" for k in CLAIMED}
NA={}  # property -> reason for not claiming it
def chk(pid):
    text,tech=CLAIMED[pid]
    return {"property_id":pid,
     "quick_cmd":f"/verif/bin/gosym check {pid} --tier quick",
     "thorough_cmd":f"/verif/bin/gosym check {pid} --tier thorough",
     "evidence_file":f"/verif/evidence/{pid}.json",
     "replay_cmd_template":"/verif/bin/gosym replay {path}",
     "engine":"gosym",
     "level_claimed":{"category":"model_checking","text":text,"design_ref":DESIGN[pid]},
     "level_note":NOTE,"technique":tech}
import os
exec(open('/verif/tools/manifest_extra.py').read()) if os.path.exists('/verif/tools/manifest_extra.py') else None
m={"version":1,
 "setup_cmd":"cd /verif/gosym && GOFLAGS=-mod=mod GOPROXY=off GOSUMDB=off GOTOOLCHAIN=local go build -o /verif/bin/gosym ./cmd/gosym",
 "hooks":{"guard":"verif","enable":"harness files of /verif/harness (//go:build verif, package xpath) are injected as an overlay (go/packages Overlay for the symbolic executor; go test -tags verif -overlay for native replay); no file in /repo carries hooks","baseline_off_cmd":"cd /repo && go test -vet=off -count=1 ./...","source_commits":[],"add_only":True},
 "engines":[{"name":"gosym","path":"/verif/gosym","serves_properties":sorted(CLAIMED),"kind_free_text":"concolic symbolic executor for go/ssa with SMT-LIB2 back end (z3 5.1.0; z3 4.8.12 / cvc5 cross-check), XPath reference oracle, frame/lockset monitors, native replay"}],
 "checks":[chk(p) for p in sorted(CLAIMED)],
 "notes":"Fix commits in /repo and known findings are listed in /verif/known_findings.txt. DESIGN.md describes approach, bounds and which seeded changes each check catches.",
 "not_applicable":[{"property_id":p["id"],"reason":NA.get(p["id"],"check not built yet in this session (work in progress; see DESIGN.md build order)")} for p in props if p["id"] not in CLAIMED]}
json.dump(m,open('/verif/MANIFEST.json','w'),indent=1)
print("claimed",sorted(CLAIMED))
