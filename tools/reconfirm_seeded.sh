#!/bin/bash
# usage: reconfirm_seeded.sh [dir ...]  — on /repo's current HEAD: does the seeded change still apply,
# keep the suite green and fail its demonstration (and does the demonstration pass without it)?
export GOFLAGS=-mod=mod GOPROXY=off GOSUMDB=off GOTOOLCHAIN=local
dirs=${@:-/verif/seeded/*}
for S in $dirs; do
  S=$(readlink -f $S); n=$(basename $S); [ -f $S/patch.diff ] || continue
  W=$(mktemp -d /tmp/reconf.XXXXXX)
  git -C /repo worktree add -q --detach $W HEAD || continue
  t=$(grep -o "func TestMutant[0-9]*Demo" $S/demo_test.go.txt | head -1 | sed 's/func //')
  cp $S/demo_test.go.txt $W/zz_demo_test.go
  (cd $W && go test -vet=off -count=1 -run "^$t\$" . >/dev/null 2>&1); pristine=$?
  rm $W/zz_demo_test.go
  if git -C $W apply $S/patch.diff 2>/dev/null; then
    (cd $W && go test -vet=off -count=1 ./... >/dev/null 2>&1); suite=$?
    cp $S/demo_test.go.txt $W/zz_demo_test.go
    (cd $W && go test -vet=off -count=1 -run "^$t\$" . >/dev/null 2>&1); demo=$?
    st=CONFIRMED; { [ $suite -ne 0 ] || [ $demo -eq 0 ] || [ $pristine -ne 0 ]; } && st=NOT-CONFIRMED
    echo "$n: $st suite=$suite demo_with=$demo demo_without=$pristine"
  else
    echo "$n: PATCH-DOES-NOT-APPLY"
  fi
  git -C /repo worktree remove --force $W; rm -rf $W
done
