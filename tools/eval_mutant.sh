#!/bin/bash
# usage: eval_mutant.sh <property id> <k> [check ids...]
# 1. confirms mutant k of /tmp/mut/<id> in its scratch worktree (suite passes with it, demo fails with it, demo passes without)
# 2. stores it under /verif/seeded/<id>-m<k>/
# 3. applies it to /repo, runs the given checks (default: the property's own), undoes it
export GOFLAGS=-mod=mod GOPROXY=off GOSUMDB=off GOTOOLCHAIN=local
id=$1; k=$2; shift 2; checks=${@:-$id}
W=/tmp/mut/$id; S=/verif/seeded/$id-m$k
[ -f $W/mutant$k.diff ] || { echo "no mutant$k.diff in $W"; exit 2; }
cd $W && git checkout -q -- . && rm -f mutant*_demo_test.go
cp mutant${k}_demo_test.go.txt mutant${k}_demo_test.go
go test -vet=off -count=1 -run "TestMutant${k}Demo" . > /tmp/mut/$id.pristine.log 2>&1; pristine=$?
rm -f mutant${k}_demo_test.go
git apply mutant$k.diff || { echo "diff does not apply"; exit 2; }
go test -vet=off -count=1 ./... > /tmp/mut/$id.suite.log 2>&1; suite=$?
cp mutant${k}_demo_test.go.txt mutant${k}_demo_test.go
go test -vet=off -count=1 -run "TestMutant${k}Demo" . > /tmp/mut/$id.demo.log 2>&1; demo=$?
rm -f mutant${k}_demo_test.go; git checkout -q -- .
echo "confirm $id m$k: suite_with_mutant=$suite (0 expected) demo_with_mutant=$demo (non-0 expected) demo_pristine=$pristine (0 expected)"
if [ $suite -ne 0 ] || [ $demo -eq 0 ] || [ $pristine -ne 0 ]; then echo "NOT CONFIRMED"; exit 3; fi
mkdir -p $S && cp $W/mutant$k.diff $S/patch.diff && cp $W/mutant${k}_demo_test.go.txt $S/demo_test.go.txt && cp $W/mutant$k.md $S/description.md
results=""
cd /repo && git status --short | grep -q . && { echo "/repo not clean"; exit 2; }
git -C /repo apply $S/patch.diff || { echo "patch does not apply to /repo"; exit 2; }
for c in $checks; do
  timeout 3000 /verif/bin/gosym check $c --tier quick > $S/check_$c.log 2>&1; rc=$?
  nv=$(grep -c "^VIOLATION" $S/check_$c.log)
  echo "  check $c on mutant: exit=$rc violations=$nv $(grep -m1 -A1 '^VIOLATION' $S/check_$c.log | tail -1 | cut -c1-120)"
  results="$results{\"check\":\"$c\",\"exit\":$rc,\"violations\":$nv},"
done
git -C /repo checkout -- .
python3 - "$id" "$k" "$S" "${results%,}" <<'PY'
import json,sys
pid,k,S,res=sys.argv[1:5]
desc=open(S+'/description.md').read()
meta={"property":pid,"mutant":int(k),"breaks":pid,"description":desc.strip().split('\n')[0][:300],
 "needs_to_manifest":desc.strip()[:1200],
 "confirmed":{"existing_suite_passes_with_change":True,"demo_fails_with_change":True,"demo_passes_without_change":True,
   "how":"tools/eval_mutant.sh: git apply in a scratch worktree, go test ./..., go test -run TestMutantKDemo with and without the change"},
 "checks_run_with_change_applied_to_repo":json.loads('['+res+']')}
json.dump(meta,open(S+'/meta.json','w'),indent=1)
PY
