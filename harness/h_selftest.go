//go:build verif

package xpath

func init() {
	vHarnesses["H_selftest"] = H_selftest
}

// vBookDoc is the book store document of the repository's tests, as concrete
// symDoc arrays (the selftest runs the same expressions natively and inside the
// executor and compares the observations).
func vBookDoc() *symDoc {
	type nd struct {
		depth, kind int
		name, val   string
		attrs       [][2]string
	}
	book := func(cat, lang, title string, authors []string, year, price string) []nd {
		out := []nd{{1, 1, "book", "", [][2]string{{"category", cat}}}}
		out = append(out, nd{2, 1, "title", title, [][2]string{{"lang", lang}}}, nd{3, 3, "", title, nil})
		for _, a := range authors {
			out = append(out, nd{2, 1, "author", a, nil}, nd{3, 3, "", a, nil})
		}
		out = append(out, nd{2, 1, "year", year, nil}, nd{3, 3, "", year, nil}, nd{2, 1, "price", price, nil}, nd{3, 3, "", price, nil})
		return out
	}
	var nodes []nd
	nodes = append(nodes, nd{0, 1, "bookstore", "", nil})
	add := func(ns []nd) {
		for _, n := range ns {
			n.depth++
			nodes = append(nodes, n)
		}
	}
	add(book("cooking", "en", "Everyday Italian", []string{"Giada De Laurentiis"}, "2005", "30.00"))
	add(book("children", "en", "Harry Potter", []string{"J K. Rowling"}, "2005", "29.99"))
	add(book("web", "en", "XQuery Kick Start", []string{"James McGovern", "Per Bothner"}, "2003", "49.99"))
	add(book("web", "fr", "Learning XML", []string{"Erik T. Ray"}, "2003", "39.95"))
	N := len(nodes) + 1
	doc := &symDoc{N: N, A: 1}
	names := []string{""}
	pool := []string{""}
	idx := func(list *[]string, s string) int {
		for i, x := range *list {
			if x == s {
				return i
			}
		}
		*list = append(*list, s)
		return len(*list) - 1
	}
	doc.d = make([]int, N)
	doc.kind = make([]int, N)
	doc.name = make([]int, N)
	doc.pfx = make([]int, N)
	doc.uri = make([]int, N)
	doc.val = make([]int, N)
	doc.nattr = make([]int, N)
	doc.aname = make([][]int, N)
	doc.apfx = make([][]int, N)
	doc.auri = make([][]int, N)
	doc.aval = make([][]int, N)
	doc.mChild = make([]int, N)
	doc.mNext = make([]int, N)
	doc.mPrev = make([]int, N)
	doc.mParent = make([]int, N)
	for i := 0; i < N; i++ {
		doc.mChild[i], doc.mNext[i], doc.mPrev[i], doc.mParent[i] = -2, -2, -2, -2
		doc.aname[i], doc.apfx[i], doc.auri[i], doc.aval[i] = make([]int, 1), make([]int, 1), make([]int, 1), make([]int, 1)
	}
	for i, n := range nodes {
		s := i + 1
		doc.d[s] = n.depth + 1
		doc.kind[s] = n.kind
		doc.name[s] = idx(&names, n.name)
		doc.val[s] = idx(&pool, n.val)
		if len(n.attrs) > 0 {
			doc.nattr[s] = 1
			doc.aname[s][0] = idx(&names, n.attrs[0][0])
			doc.aval[s][0] = idx(&pool, n.attrs[0][1])
		}
	}
	doc.names, doc.pool = names, pool
	doc.prefixes, doc.uris = []string{""}, []string{""}
	return doc
}

// H_selftest evaluates one expression on the concrete book store document through
// Select and Evaluate and reports everything a caller can observe.
func H_selftest() {
	doc := vBookDoc()
	expr := vParam("expr")
	e, err := Compile(expr)
	if err != nil {
		vObserve("compile-error", true)
		return
	}
	cls := vGuard(func() {
		got, ended := vDrain(e.Select(navAt(doc, 0, -1)), 200)
		vObserve("select", got)
		vObserve("ended", ended)
		var vals []string
		it := e.Select(navAt(doc, 0, -1))
		for len(vals) < 200 && it.MoveNext() {
			vals = append(vals, it.Current().LocalName()+"="+it.Current().Value())
		}
		vObserve("values", vals)
		switch v := e.Evaluate(navAt(doc, 0, -1)).(type) {
		case *NodeIterator:
			g2, _ := vDrain(v, 200)
			vObserve("evaluate", g2)
		case int:
			vObserve("evaluate-int", v)
		default:
			vObserve("evaluate", v)
		}
	})
	vObserve("panic-class", cls)
}
