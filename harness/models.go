//go:build verif

package xpath

// Go models of std string functions. The symbolic executor interprets these
// (plain loops over bytes) instead of the std implementations (assembly,
// unsafe) whenever an argument has symbolic bytes; on concrete arguments the
// real std function is called. TestVerifModels (models_test.go) compares every
// model with the std function exhaustively on short strings.

func vmHasPrefix(s, prefix string) bool {
	return len(s) >= len(prefix) && s[:len(prefix)] == prefix
}

func vmHasSuffix(s, suffix string) bool {
	return len(s) >= len(suffix) && s[len(s)-len(suffix):] == suffix
}

func vmIndex(s, sub string) int {
	for i := 0; i+len(sub) <= len(s); i++ {
		if s[i:i+len(sub)] == sub {
			return i
		}
	}
	return -1
}

func vmContains(s, sub string) bool { return vmIndex(s, sub) >= 0 }

func vmIsSpaceASCII(c byte) bool {
	return c == ' ' || c == '\t' || c == '\n' || c == '\v' || c == '\f' || c == '\r'
}

// vmTrimSpace: ASCII inputs only (bytes >= 0x80 are outside the symbolic families).
func vmTrimSpace(s string) string {
	lo, hi := 0, len(s)
	for lo < hi && vmIsSpaceASCII(s[lo]) {
		lo++
	}
	for hi > lo && vmIsSpaceASCII(s[hi-1]) {
		hi--
	}
	return s[lo:hi]
}

func vmInSet(c byte, set string) bool {
	for i := 0; i < len(set); i++ {
		if set[i] == c {
			return true
		}
	}
	return false
}

// vmTrim models strings.Trim for an ASCII cutset.
func vmTrim(s, cutset string) string {
	lo, hi := 0, len(s)
	for lo < hi && vmInSet(s[lo], cutset) {
		lo++
	}
	for hi > lo && vmInSet(s[hi-1], cutset) {
		hi--
	}
	return s[lo:hi]
}

func vmToLower(s string) string {
	out := ""
	for i := 0; i < len(s); i++ {
		c := s[i]
		if c >= 'A' && c <= 'Z' {
			c += 'a' - 'A'
		}
		out += string([]byte{c})
	}
	return out
}

func vmReplaceAll(s, old, new string) string {
	if old == "" {
		// strings.ReplaceAll inserts new before every rune and at the end (ASCII: every byte)
		out := new
		for i := 0; i < len(s); i++ {
			out += s[i:i+1] + new
		}
		return out
	}
	out := ""
	i := 0
	for i < len(s) {
		if i+len(old) <= len(s) && s[i:i+len(old)] == old {
			out += new
			i += len(old)
		} else {
			out += s[i : i+1]
			i++
		}
	}
	return out
}

func vmJoin(parts []string, sep string) string {
	out := ""
	for i, p := range parts {
		if i > 0 {
			out += sep
		}
		out += p
	}
	return out
}

// vmReplacerReplace models strings.NewReplacer(oldnew...).Replace(s) for
// single-byte (or empty-list) olds: at every byte the first pair whose old
// equals that byte wins.
func vmReplacerReplace(oldnew []string, s string) string {
	out := ""
	for i := 0; i < len(s); i++ {
		rep := s[i : i+1]
		for k := 0; k+1 < len(oldnew); k += 2 {
			if oldnew[k] == s[i:i+1] {
				rep = oldnew[k+1]
				break
			}
		}
		out += rep
	}
	return out
}
