//go:build verif

package xpath

import (
	"sync"
	"errors"
	"regexp"
	"strconv"
)

// H_getregexp (C16): the lookup used by matches()/replace() and by Compile's
// constant-pattern check, over a sequence of requests from the initial state:
// every request returns the compilation of exactly the requested pattern, or an
// error iff that pattern does not compile - whatever was requested before.
func H_getregexp() {
	pats := []string{"a", "b", "(", "a(", "(a)", "[", "a|b"}
	RegexpCache = defaultRegexpCache()
	n := vParamInt("calls")
	for i := 0; i < n; i++ {
		p := pats[vConc(vInt("p"+strconv.Itoa(i), 0, len(pats)-1))]
		_, cerr := regexp.Compile(p)
		var re *regexp.Regexp
		var err error
		cls := vGuard(func() { re, err = getRegexp(p) })
		vAssert(cls == 0, "no-panic")
		if cls != 0 {
			return
		}
		vFlag("nontrivial")
		vAssert((err != nil) == (cerr != nil), "error-iff-pattern-does-not-compile")
		vAssert((re == nil) == (err != nil), "exactly-one-of-regexp-error")
		if re != nil && cerr == nil {
			vAssert(re.String() == p, "compilation-of-the-requested-pattern")
		}
	}
}

func init() {
	vHarnesses["H_getregexp"] = H_getregexp
	vHarnesses["H_cache"] = H_cache
	vHarnesses["H_regex"] = H_regex
}

// Lockset API (symbolic executor only).
func vProtect(p interface{})   {}
func vUnlockedReads() string  { return "" }
func vUnlockedWrites() string { return "" }

// vLoadValue is the (uninterpreted but deterministic) result of loading key.
func vLoadValue(key interface{}) interface{} {
	s, _ := key.(string)
	return "loaded:" + s
}

// vArbitraryCacheMap builds a map of 0..3 entries with distinct symbolic keys,
// every entry satisfying m[k] = load(k).
func vArbitraryCacheMap(tag string) (map[interface{}]interface{}, int) {
	n := vConc(vInt("n"+tag, 0, 3))
	m := map[interface{}]interface{}{}
	var keys []string
	for i := 0; i < n; i++ {
		k := vStr("k"+tag+strconv.Itoa(i), 1, "set:abcd")
		vAssume(len(k) == 1)
		for _, o := range keys {
			vAssume(o != k)
		}
		keys = append(keys, k)
		m[k] = vLoadValue(k)
	}
	return m, n
}

// H_cache (C16 a): one inductive step of the real loadingCache.get from an
// arbitrary state that satisfies the invariant
//
//	I: (cap > 0 => |m| <= cap)  and  for every k in m: m[k] = load(k)
//
// with arbitrary interference between its read section and its write section
// (the load callback replaces the state by another arbitrary I-state under the
// lock, as other goroutines may have done). Post-conditions: the result is
// load(key), or (nil, err) with the map untouched when load fails; I holds
// again; m and reset are only accessed while the lock is held.
func H_cache() {
	capacity := vInt("cap", 0, 1<<30)
	m1, n1 := vArbitraryCacheMap("a")
	vAssume(capacity == 0 || n1 <= capacity)
	fail := vBool("fail")
	c := &loadingCache{cap: capacity, m: m1}
	loads := 0
	n2 := -1
	var keyAfter bool
	var key string
	c.load = func(k interface{}) (interface{}, error) {
		loads++
		// interference: between RUnlock and Lock any number of other goroutines may
		// have run; they leave some other I-state behind
		m2, n := vArbitraryCacheMap("b")
		vAssume(capacity == 0 || n <= capacity)
		c.Lock()
		c.m = m2
		c.Unlock()
		n2 = n
		_, keyAfter = m2[key]
		if fail {
			return nil, errors.New("load failed")
		}
		if vHasParam("canary") {
			return "not the value of the requested key", nil // deliberately wrong loader
		}
		return vLoadValue(k), nil
	}
	vFreeze(c)
	vProtect(&c.m)
	vProtect(&c.reset)
	key = vStr("key", 1, "set:abcd")
	vAssume(len(key) == 1)
	_, inFirst := m1[key]
	v, err := c.get(key)
	vObserve("loads", loads)
	vObserve("error", err != nil)
	vFlag("nontrivial")
	// lock discipline (symbolic executor: lockset monitor; a read lock does not protect a
	// write). A finding is replayed natively under the race detector: see vCacheStress.
	vAssertInfo(vUnlockedWrites() == "", "non-interference:cache-state-written-only-under-write-lock", vUnlockedWrites())
	vAssertInfo(vUnlockedReads() == "", "non-interference:cache-state-read-only-under-lock", vUnlockedReads())
	if !vSymbolic() {
		vCacheStress(capacity)
	}
	if inFirst {
		vAssert(loads == 0 && err == nil && v == vLoadValue(key), "cache:hit-returns-load-of-key")
		return
	}
	vAssert(loads == 1, "cache:miss-loads-once")
	if fail {
		_, now := c.m[key]
		vAssert(v == nil && err != nil, "cache:failed-load-returns-error")
		vAssert(len(c.m) == n2 && now == keyAfter, "cache:failed-load-not-remembered")
		return
	}
	vAssert(err == nil && v == vLoadValue(key), "cache:returns-load-of-requested-key")
	vAssert(capacity == 0 || len(c.m) <= capacity, "cache:never-more-entries-than-capacity")
	ok := true
	for k, val := range c.m {
		if val != vLoadValue(k) {
			ok = false
		}
	}
	vAssert(ok, "cache:every-entry-is-load-of-its-key")
	stored, have := c.m[key]
	vAssert(have && stored == vLoadValue(key), "cache:requested-key-stored")
}

// vCacheStress (native replays only): goroutines miss and hit on one shared cache; with
// a broken lock discipline the race detector reports the unsynchronised map access.
func vCacheStress(capacity int) {
	if capacity > 8 {
		capacity = 8
	}
	c := NewLoadingCache(func(k interface{}) (interface{}, error) { return vLoadValue(k), nil }, capacity)
	var wg sync.WaitGroup
	for g := 0; g < 4; g++ {
		wg.Add(1)
		go func(g int) {
			defer wg.Done()
			for i := 0; i < 200; i++ {
				c.get(string(rune('a' + (g*7+i)%13)))
			}
		}(g)
	}
	wg.Wait()
}

// vNormReplacement is the reference reading of an XPath replacement string,
// written for Go's regexp: "$" followed by digits refers to group N, where N is
// the longest run of digits that is a group number of the pattern (0 is the whole
// match); the digits after it are literal. A single digit beyond the last group
// is a reference to a group that does not exist (the empty string). Every
// reference is written ${N} so that Go does not read the characters after it as
// part of the name; everything else is copied.
func vNormReplacement(r string, groups int) string {
	out := ""
	i := 0
	for i < len(r) {
		if r[i] == '$' && i+1 < len(r) && r[i+1] >= '0' && r[i+1] <= '9' {
			n := int(r[i+1] - '0')
			j := i + 2
			for j < len(r) && r[j] >= '0' && r[j] <= '9' && n*10+int(r[j]-'0') <= groups {
				n = n*10 + int(r[j]-'0')
				j++
			}
			out += "${" + strconv.Itoa(n) + "}"
			i = j
			continue
		}
		out += r[i : i+1]
		i++
	}
	return out
}

// H_regex (C16 b): wiring of matches() and replace() to Go's regexp (the regexp
// operations themselves are uninterpreted: same operands, same result).
func H_regex() {
	doc := vDoc()
	cur, attr := vContext(doc)
	mode := vParam("mode")
	s := vStr("S1", vParamInt("slen"), "xmlascii")
	var p string
	if vHasParam("pattern") {
		p = vParam("pattern")
	} else {
		p = vStr("S2", 2, "xmlascii")
	}
	RegexpCache = defaultRegexpCache()
	switch mode {
	case "matches", "replace":
		var r, want string
		if mode == "replace" {
			r = vStr("S3", vParamInt("rlen"), "set:$012a")
			// replacement strings valid in XPath: '$' is always followed by a digit
			for i := 0; i < len(r); i++ {
				if r[i] == '$' {
					vAssume(i+1 < len(r))
					vAssume(r[i+1] >= '0' && r[i+1] <= '9')
					// no leading zero in a multi-digit reference ($01 is read as group 1 by
					// Go without any rewriting; it is outside the rewriting rule being checked)
					if r[i+1] == '0' && i+2 < len(r) {
						vAssume(r[i+2] < '0' || r[i+2] > '9')
					}
				}
			}
		}
		e, err := vCompileHoles(vParam("expr"))
		re, cerr := regexp.Compile(p)
		vObserve("compiled", err == nil)
		vFlag("nontrivial")
		vAssert((err != nil) == (cerr != nil), "compile-error-iff-pattern-does-not-compile")
		if err != nil || cerr != nil {
			return
		}
		var got interface{}
		cls := vGuard(func() { got = e.Evaluate(navAt(doc, cur, attr)) })
		vObserve("panic-class", cls)
		vAssert(cls == 0, "no-panic")
		if cls != 0 {
			return
		}
		if mode == "matches" {
			b, ok := got.(bool)
			vAssert(ok && b == re.MatchString(s), "matches-is-go-regexp-match")
			return
		}
		want = re.ReplaceAllString(s, vNormReplacement(r, re.NumSubexp()))
		g, ok := got.(string)
		vAssert(ok && g == want, "replace-is-go-regexp-replaceall")
	}
}
