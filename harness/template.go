//go:build verif

package xpath

import "strconv"

// Token-class templates for parser inputs. A template is a space separated
// list of pieces:
//
//	N1..N9  NCName, 1-3 bytes: first a letter or '_', then letters, digits, '-', '.', '_'
//	D1..D9  number, 1-3 digits
//	S1..S9  string literal: quote byte ' or " (symbolic), 0-2 content bytes different from the quote
//	W1..W9  optional whitespace: 0-2 bytes of space, tab, LF, CR
//	w1..w9  mandatory whitespace: 1-2 bytes
//	P1..P9  one ASCII punctuation byte
//	anything else: literal text ("_" alone is a literal space)
//
// Every occurrence of the same piece denotes the same bytes.
func vTemplate(tpl string) string {
	memo := map[string]string{}
	out := ""
	cur := ""
	flush := func() {
		if cur == "" {
			return
		}
		out += vPiece(cur, memo)
		cur = ""
	}
	for i := 0; i < len(tpl); i++ {
		if tpl[i] == ' ' {
			flush()
		} else {
			cur += string(tpl[i])
		}
	}
	flush()
	return out
}

func vPiece(p string, memo map[string]string) string {
	if len(p) == 2 && p[1] >= '1' && p[1] <= '9' {
		if s, ok := memo[p]; ok {
			return s
		}
		s, ok := "", true
		// parameter "tokmax" (1..3, default 3) bounds the token sizes: names <= tokmax bytes,
		// string contents <= tokmax-1 bytes, whitespace runs <= min(2, tokmax) bytes
		tokmax := 3
		if vHasParam("tokmax") {
			tokmax = vParamInt("tokmax")
		}
		wsmax := 2
		if tokmax < 2 {
			wsmax = 1
		}
		switch p[0] {
		case 'N':
			n := vInt(p+"#n", 1, tokmax)
			n = vConc(n)
			bs := []byte{vByte(p+"#0", "name1")}
			for i := 1; i < n; i++ {
				bs = append(bs, vByte(p+"#"+strconv.Itoa(i), "namec"))
			}
			s = string(bs)
		case 'D':
			s = vStr(p, 3, "digit")
			vAssume(len(s) >= 1)
		case 'S':
			q := vByte(p+"#q", "set:'\"")
			body := vStr(p, tokmax-1, "xmlascii")
			for i := 0; i < len(body); i++ {
				vAssume(body[i] != q)
			}
			s = string([]byte{q}) + body + string([]byte{q})
		case 'W':
			s = vStr(p, wsmax, "ws")
		case 'w':
			s = vStr(p, wsmax, "ws")
			vAssume(len(s) >= 1)
		case 'P':
			s = string([]byte{vByte(p, "punct")})
		default:
			ok = false
		}
		if ok {
			memo[p] = s
			return s
		}
	}
	if p == "_" {
		return " "
	}
	return p
}
