//go:build verif

package xpath

import (
	"strconv"
	"sync"
)

func init() {
	vHarnesses["H_pure"] = H_pure
	vHarnesses["H_conc"] = H_conc
}

// Frame monitor API (symbolic executor only; natively these observe nothing).
func vFreeze(root interface{})  {}
func vFrameWrites(mode int) int { return 0 }
func vFrameReport() string      { return "" }

// vObserveExpr evaluates e at (doc, cur, attr) through Select and through
// Evaluate and renders what a caller can see.
func vObserveExpr(e *Expr, doc *symDoc, cur, attr, max int) string {
	out := ""
	got, ended := vDrain(e.Select(navAt(doc, cur, attr)), max)
	out += "select=" + vRender(got) + "/" + strconv.FormatBool(ended)
	switch v := e.Evaluate(navAt(doc, cur, attr)).(type) {
	case *NodeIterator:
		g2, e2 := vDrain(v, max)
		out += " evaluate=" + vRender(g2) + "/" + strconv.FormatBool(e2)
	case nil:
		out += " evaluate=nil"
	default:
		out += " evaluate=" + vRender(v)
	}
	return out
}

// vHistoryStep performs one earlier use of the compiled expression: a Select or
// an Evaluate at some context, consuming a nondeterministic prefix of the result.
func vHistoryStep(e *Expr, doc *symDoc, tag string, max int) {
	cur, attr := vContextNamed(doc, tag)
	k := vInt("k"+tag, 0, 2)
	if vInt("op"+tag, 0, 1) == 0 {
		it := e.Select(navAt(doc, cur, attr))
		for i := 0; i < k && it.MoveNext(); i++ {
		}
	} else {
		switch v := e.Evaluate(navAt(doc, cur, attr)).(type) {
		case *NodeIterator:
			for i := 0; i < k && v.MoveNext(); i++ {
			}
		default:
			_ = v
		}
	}
}

// H_pure (C04): after an arbitrary short history of uses (1-2 calls, each
// abandoned after a nondeterministic number of results, at nondeterministic
// contexts) the compiled expression gives the same observations as a freshly
// compiled one; and (frame condition) the history made no value-changing store
// to state reachable from the compiled expression or from package globals.
func H_pure() {
	doc := vDoc()
	expr := vParam("expr")
	max := 4*doc.N*(doc.A+1) + 2
	var r1, r2 string
	writes := 0
	report := ""
	cls := vGuard(func() {
		e, err := Compile(expr)
		if err != nil {
			vObserve("compile-error", err.Error())
			vAssert(false, "compiles")
			vStop()
		}
		vFreeze(e)
		if vHasParam("canary") {
			// deliberately wrong use: iterate the shared query tree itself
			root := navAt(doc, 0, -1)
			t := &NodeIterator{query: e.q, node: root}
			e.q.Evaluate(t)
			t.MoveNext()
		}
		steps := vInt("steps", 1, vParamInt("steps"))
		hdoc := doc
		if vHasParam("twodocs") {
			hdoc = vDocNamed("B") // the history runs on another document
		}
		vHistoryStep(e, hdoc, "h1", max)
		if steps > 1 {
			vHistoryStep(e, hdoc, "h2", max)
		}
		if steps > 2 {
			vHistoryStep(e, doc, "h3", max)
		}
		writes = vFrameWrites(0)
		report = vFrameReport()
		cur, attr := vContext(doc)
		r1 = vObserveExpr(e, doc, cur, attr, max)
		f, _ := Compile(expr)
		r2 = vObserveExpr(f, doc, cur, attr, max)
	})
	vObserve("panic-class", cls)
	if cls != 0 {
		// panics are C15's subject; a history that panics is not a purity witness
		return
	}
	vObserve("after-history", r1)
	vObserve("fresh", r2)
	vAssert(r1 == r2, "same-as-fresh")
	if r1 != "" {
		vFlag("nontrivial")
	}
	vAssertInfo(writes == 0, "frame:no-value-changing-store-to-shared-state", report)
}

// H_conc (C05). Symbolically: one call on the frozen expression performs no
// store at all to shared state outside a lock (non-interference, which makes
// every interleaving equivalent to the sequential run). Natively (replay): the
// witness expression/document is evaluated from 4 goroutines under -race.
func H_conc() {
	doc := vDoc()
	expr := vParam("expr")
	max := 4*doc.N*(doc.A+1) + 2
	cur, attr := vContext(doc)
	op := vInt("op", 0, 1)
	e, err := Compile(expr)
	if err != nil {
		vObserve("compile-error", err.Error())
		vAssert(false, "compiles")
		return
	}
	one := func() (s string) {
		defer func() {
			if r := recover(); r != nil {
				s = "panic"
			}
		}()
		if op == 0 {
			got, _ := vDrain(e.Select(navAt(doc, cur, attr)), max)
			return vRender(got)
		}
		switch v := e.Evaluate(navAt(doc, cur, attr)).(type) {
		case *NodeIterator:
			got, _ := vDrain(v, max)
			return vRender(got)
		case nil:
			return "nil"
		default:
			return vRender(v)
		}
	}
	if vSymbolic() {
		vFreeze(e)
		if vHasParam("canary") {
			root := navAt(doc, 0, -1)
			t := &NodeIterator{query: e.q, node: root}
			e.q.Evaluate(t)
			t.MoveNext()
		}
		r := one()
		vObserve("result", r)
		n := vFrameWrites(1)
		if r != "" {
			vFlag("nontrivial")
		}
		vAssertInfo(n == 0, "non-interference:no-unlocked-store-to-shared-state", vFrameReport())
		return
	}
	// native: concurrent use; the race detector is the judge, and every goroutine
	// must see the sequential result
	want := func() string {
		f, _ := Compile(expr)
		e0 := e
		e = f
		r := one()
		e = e0
		return r
	}()
	var wg sync.WaitGroup
	res := make([]string, 4)
	for g := 0; g < 4; g++ {
		wg.Add(1)
		go func(g int) {
			defer wg.Done()
			for i := 0; i < 50; i++ {
				res[g] = one()
			}
		}(g)
	}
	wg.Wait()
	same := true
	for g := range res {
		if res[g] != want {
			same = false
		}
	}
	vObserve("result", want)
	vAssert(same, "concurrent-result-equals-sequential")
}
