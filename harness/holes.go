//go:build verif

package xpath

import (
	"errors"
	"strconv"
	"strings"
)

// Symbolic literals ("holes"). The engine has no variables, so the harness
// parses a template with the real parser, replaces marker literals in the AST
// by nondeterministic values and builds the query with the real builder:
// everything except the lexing of that one literal is the real pipeline.
//
//	number 9001..9009  -> hole h1..h9   (parameter hole.hK = any | finite | int:lo:hi | q:lo:hi)
//	string '#S1'..'#S9' -> hole S1..S9  (parameter hole.SK = maxlen:class)

func vHoleValue(name string) interface{} {
	spec := vParam("hole." + name)
	if name[0] == 'h' {
		if strings.HasPrefix(spec, "int:") {
			f := strings.Split(spec, ":")
			lo, _ := strconv.Atoi(f[1])
			hi, _ := strconv.Atoi(f[2])
			return float64(vInt(name, lo, hi))
		}
		if strings.HasPrefix(spec, "qc:") {
			// quarter steps, one execution path per value (case split)
			f := strings.Split(spec, ":")
			lo, _ := strconv.Atoi(f[1])
			hi, _ := strconv.Atoi(f[2])
			return float64(vConc(vInt(name, lo, hi))) / 4
		}
		if strings.HasPrefix(spec, "q:") {
			// quarter steps: k/4 for an integer k in [lo,hi]
			f := strings.Split(spec, ":")
			lo, _ := strconv.Atoi(f[1])
			hi, _ := strconv.Atoi(f[2])
			return float64(vInt(name, lo, hi)) / 4
		}
		return vFloat(name, spec)
	}
	i := strings.IndexByte(spec, ':')
	n, _ := strconv.Atoi(spec[:i])
	return vStr(name, n, spec[i+1:])
}

func vFillHoles(n node) {
	switch x := n.(type) {
	case *operandNode:
		switch v := x.Val.(type) {
		case float64:
			if v >= 9001 && v <= 9009 && v == float64(int(v)) {
				x.Val = vHoleValue("h" + strconv.Itoa(int(v)-9000))
			}
		case string:
			if len(v) == 3 && v[0] == '#' && v[1] == 'S' {
				x.Val = vHoleValue(v[1:])
			}
		}
	case *operatorNode:
		vFillHoles(x.Left)
		vFillHoles(x.Right)
	case *axisNode:
		if x.Input != nil {
			vFillHoles(x.Input)
		}
	case *filterNode:
		vFillHoles(x.Input)
		vFillHoles(x.Condition)
	case *functionNode:
		for _, a := range x.Args {
			vFillHoles(a)
		}
	case *groupNode:
		vFillHoles(x.Input)
	}
}

// vCompileHoles is Compile with hole substitution between parse and build.
func vCompileHoles(expr string) (e *Expr, err error) {
	defer func() {
		if r := recover(); r != nil {
			switch x := r.(type) {
			case string:
				err = errors.New(x)
			case error:
				err = x
			default:
				err = errors.New("unknown panic")
			}
		}
	}()
	if !strings.Contains(expr, "900") && !strings.Contains(expr, "#S") {
		return Compile(expr)
	}
	root := parse(expr, nil)
	vFillHoles(root)
	b := &builder{}
	props := builderProps.None
	q, err := b.processNode(root, flagsEnum.None, &props)
	if err != nil {
		return nil, err
	}
	if q == nil {
		return nil, errors.New("undeclared variable in XPath expression")
	}
	return &Expr{s: expr, q: q}, nil
}
