//go:build verif

package xpath

import (
	"strings"
	"testing"
)

// TestVerifModels: every Go model agrees with the std function on all strings
// up to length 3 over an 8-symbol alphabet (run by `gosym selftest`).
func TestVerifModels(t *testing.T) {
	alpha := []byte{'a', 'b', 'A', ' ', '\t', '$', '1', '-'}
	var all []string
	var gen func(prefix string, n int)
	gen = func(prefix string, n int) {
		all = append(all, prefix)
		if n == 0 {
			return
		}
		for _, c := range alpha {
			gen(prefix+string([]byte{c}), n-1)
		}
	}
	gen("", 3)
	for _, s := range all {
		if vmTrimSpace(s) != strings.TrimSpace(s) {
			t.Fatalf("TrimSpace(%q)", s)
		}
		if vmTrim(s, " \t\r\n") != strings.Trim(s, " \t\r\n") || vmTrim(s, "a$") != strings.Trim(s, "a$") {
			t.Fatalf("Trim(%q)", s)
		}
		if vmToLower(s) != strings.ToLower(s) {
			t.Fatalf("ToLower(%q)", s)
		}
	}
	short := all[:1+8+64]
	for _, s := range all {
		for _, u := range short {
			if vmHasPrefix(s, u) != strings.HasPrefix(s, u) || vmHasSuffix(s, u) != strings.HasSuffix(s, u) ||
				vmIndex(s, u) != strings.Index(s, u) || vmContains(s, u) != strings.Contains(s, u) {
				t.Fatalf("prefix/suffix/index/contains(%q,%q)", s, u)
			}
		}
	}
	for _, s := range short {
		for _, o := range short {
			for _, n := range []string{"", "x", "${1}", "ab"} {
				if vmReplaceAll(s, o, n) != strings.ReplaceAll(s, o, n) {
					t.Fatalf("ReplaceAll(%q,%q,%q): %q vs %q", s, o, n, vmReplaceAll(s, o, n), strings.ReplaceAll(s, o, n))
				}
			}
			if vmJoin([]string{s, o, s}, o) != strings.Join([]string{s, o, s}, o) {
				t.Fatalf("Join")
			}
		}
	}
	// Replacer with single-byte olds (what translate() builds)
	for _, s := range all {
		for _, pairs := range [][]string{{}, {"a", "x"}, {"a", "x", "a", "y"}, {"a", "", "b", "a"}, {"a", "b", "b", "a", " ", ""}} {
			if vmReplacerReplace(pairs, s) != strings.NewReplacer(pairs...).Replace(s) {
				t.Fatalf("Replacer(%v).Replace(%q)", pairs, s)
			}
		}
	}
}
