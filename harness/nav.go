//go:build verif

package xpath

import "strconv"

// symDoc is a document with at most N node slots in document (pre-)order.
// Slot 0 is the root node. d[i] is the depth of slot i; d[i] == 0 for i >= 1
// means "no such slot" (and then no later slot exists either). Every array is
// filled from nondeterministic inputs, so under the symbolic executor the whole
// document is symbolic; natively the arrays hold the replayed model.
type symDoc struct {
	N, A  int
	d     []int
	kind  []int // NodeType of slot i >= 1: 1 element, 3 text, 4 comment (2 excluded)
	name  []int // index into names (elements)
	pfx   []int // index into prefixes (elements)
	uri   []int // index into uris (elements)
	val   []int // index into pool
	nattr []int
	aname [][]int
	apfx  [][]int
	auri  [][]int
	aval  [][]int

	names    []string
	prefixes []string
	uris     []string
	pool     []string
	freeVal  bool     // values are free strings instead of pool members
	fval     []string // free values
	freeName bool
	fname    []string
	fnameSet []bool // free names/values are materialised on first use
	fvalSet  []bool

	mChild, mNext, mPrev, mParent []int // memo: -2 unknown, -1 none
}

func vSplit(s string) []string {
	// comma separated list; "" is a legal member ("a,,b")
	var out []string
	cur := ""
	for i := 0; i < len(s); i++ {
		if s[i] == ',' {
			out = append(out, cur)
			cur = ""
		} else {
			cur += string(s[i])
		}
	}
	return append(out, cur)
}

// vDoc builds a nondeterministic document. Parameters (vParam): N, A, names,
// pool; optional prefixes, uris.
func vDoc() *symDoc { return vDocNamed("") }

// vDocNamed: a second, independent document uses input names with a suffix.
func vDocNamed(sfx string) *symDoc {
	N := vParamInt("N")
	A := vParamInt("A")
	doc := &symDoc{N: N, A: A}
	doc.names = vSplit(vParam("names"))
	doc.pool = vSplit(vParam("pool"))
	doc.prefixes = []string{""}
	doc.uris = []string{""}
	if vHasParam("prefixes") {
		doc.prefixes = vSplit(vParam("prefixes"))
	}
	if vHasParam("uris") {
		doc.uris = vSplit(vParam("uris"))
	}
	if vHasParam("freenames") {
		doc.freeName = true
		doc.fname = make([]string, N)
		doc.fnameSet = make([]bool, N)
	}
	if vHasParam("freevals") {
		doc.freeVal = true
		doc.fval = make([]string, N)
		doc.fvalSet = make([]bool, N)
	}
	doc.d = make([]int, N)
	doc.kind = make([]int, N)
	doc.name = make([]int, N)
	doc.pfx = make([]int, N)
	doc.uri = make([]int, N)
	doc.val = make([]int, N)
	doc.nattr = make([]int, N)
	doc.aname = make([][]int, N)
	doc.apfx = make([][]int, N)
	doc.auri = make([][]int, N)
	doc.aval = make([][]int, N)
	doc.mChild = make([]int, N)
	doc.mNext = make([]int, N)
	doc.mPrev = make([]int, N)
	doc.mParent = make([]int, N)
	ok := true
	for i := 0; i < N; i++ {
		doc.mChild[i], doc.mNext[i], doc.mPrev[i], doc.mParent[i] = -2, -2, -2, -2
		doc.aname[i] = make([]int, A)
		doc.apfx[i] = make([]int, A)
		doc.auri[i] = make([]int, A)
		doc.aval[i] = make([]int, A)
		if i == 0 {
			continue
		}
		si := strconv.Itoa(i)
		doc.d[i] = vInt("d"+si+sfx, 0, N-1)
		doc.kind[i] = vInt("k"+si+sfx, 1, 4) // 1 element, 3 text, 4 comment
		ok = vAnd(ok, doc.kind[i] != 2)
		doc.name[i] = vInt("nm"+si+sfx, 0, len(doc.names)-1)
		doc.pfx[i] = vInt("px"+si+sfx, 0, len(doc.prefixes)-1)
		doc.uri[i] = vInt("ur"+si+sfx, 0, len(doc.uris)-1)
		doc.val[i] = vInt("v"+si+sfx, 0, len(doc.pool)-1)
		doc.nattr[i] = vInt("na"+si+sfx, 0, A)

		for a := 0; a < A; a++ {
			sa := si + "_" + strconv.Itoa(a)
			doc.aname[i][a] = vInt("an"+sa+sfx, 0, len(doc.names)-1)
			doc.apfx[i][a] = vInt("ap"+sa+sfx, 0, len(doc.prefixes)-1)
			doc.auri[i][a] = vInt("au"+sa+sfx, 0, len(doc.uris)-1)
			doc.aval[i][a] = vInt("av"+sa+sfx, 0, len(doc.pool)-1)
			for b := 0; b < a; b++ {
				// attribute names of one element are distinct (expanded names)
				ok = vAnd(ok, vOr(doc.aname[i][a] != doc.aname[i][b], doc.apfx[i][a] != doc.apfx[i][b]))
			}
		}
		// shape: depth grows by at most one; once the document ended it stays ended;
		// only elements (and the root) have children
		if i == 1 {
			ok = vAnd(ok, doc.d[1] <= 1)
		} else {
			ok = vAnd(ok, doc.d[i] <= doc.d[i-1]+1)
			ok = vAnd(ok, vOr(doc.d[i-1] != 0, doc.d[i] == 0))
			ok = vAnd(ok, vOr(doc.kind[i-1] == 1, doc.d[i] <= doc.d[i-1]))
		}
	}
	vAssume(ok)
	return doc
}

// freeNameOf: element name as a free byte string: 1-3 bytes, first a letter.
func (d *symDoc) freeNameOf(i int) string {
	if !d.fnameSet[i] {
		d.fnameSet[i] = true
		nm := vStr("fn"+strconv.Itoa(i), 3, vParam("freenames"))
		vAssume(len(nm) >= 1)
		vAssume(vOr(nm[0] == 'a', nm[0] == 'b'))
		d.fname[i] = nm
	}
	return d.fname[i]
}

func (d *symDoc) freeValOf(i int) string {
	if !d.fvalSet[i] {
		d.fvalSet[i] = true
		d.fval[i] = vStr("fv"+strconv.Itoa(i), vParamInt("freevallen"), vParam("freevals"))
	}
	return d.fval[i]
}

func (d *symDoc) exists(i int) bool { return i == 0 || (i < d.N && d.d[i] != 0) }

func (d *symDoc) firstChild(i int) int {
	if m := d.mChild[i]; m != -2 {
		return m
	}
	r := -1
	if i+1 < d.N && d.d[i+1] > d.d[i] {
		r = i + 1
	}
	d.mChild[i] = r
	return r
}

func (d *symDoc) nextSib(i int) int {
	if m := d.mNext[i]; m != -2 {
		return m
	}
	r := -1
	if i > 0 {
		for j := i + 1; j < d.N; j++ {
			if d.d[j] <= d.d[i] {
				if d.d[j] == d.d[i] {
					r = j
				}
				break
			}
		}
	}
	d.mNext[i] = r
	return r
}

func (d *symDoc) prevSib(i int) int {
	if m := d.mPrev[i]; m != -2 {
		return m
	}
	r := -1
	for j := i - 1; j > 0; j-- {
		if d.d[j] <= d.d[i] {
			if d.d[j] == d.d[i] {
				r = j
			}
			break
		}
	}
	d.mPrev[i] = r
	return r
}

func (d *symDoc) parent(i int) int {
	if i == 0 {
		return -1
	}
	if m := d.mParent[i]; m != -2 {
		return m
	}
	r := 0
	for j := i - 1; j > 0; j-- {
		if d.d[j] < d.d[i] {
			r = j
			break
		}
	}
	d.mParent[i] = r
	return r
}

// symNav is the NodeNavigator over a symDoc (no NamespaceURL method).
type symNav struct {
	doc  *symDoc
	cur  int
	attr int // -1: on the slot node itself
}

func navAt(doc *symDoc, cur, attr int) *symNav { return &symNav{doc: doc, cur: cur, attr: attr} }

func (n *symNav) NodeType() NodeType {
	if n.attr >= 0 {
		return AttributeNode
	}
	if n.cur == 0 {
		return RootNode
	}
	return NodeType(n.doc.kind[n.cur])
}

func (n *symNav) LocalName() string {
	if n.attr >= 0 {
		return n.doc.names[n.doc.aname[n.cur][n.attr]]
	}
	if n.cur == 0 || n.doc.kind[n.cur] != 1 {
		return ""
	}
	if n.doc.freeName {
		return n.doc.freeNameOf(n.cur)
	}
	return n.doc.names[n.doc.name[n.cur]]
}

func (n *symNav) Prefix() string {
	if len(n.doc.prefixes) == 1 {
		return n.doc.prefixes[0]
	}
	if n.attr >= 0 {
		return n.doc.prefixes[n.doc.apfx[n.cur][n.attr]]
	}
	if n.cur == 0 || n.doc.kind[n.cur] != 1 {
		return ""
	}
	return n.doc.prefixes[n.doc.pfx[n.cur]]
}

func (n *symNav) Value() string {
	if n.attr >= 0 {
		return n.doc.pool[n.doc.aval[n.cur][n.attr]]
	}
	if n.cur == 0 {
		return ""
	}
	if n.doc.freeVal {
		return n.doc.freeValOf(n.cur)
	}
	return n.doc.pool[n.doc.val[n.cur]]
}

func (n *symNav) Copy() NodeNavigator {
	c := *n
	return &c
}

func (n *symNav) MoveToRoot() { n.cur, n.attr = 0, -1 }

func (n *symNav) MoveToParent() bool {
	if n.attr >= 0 {
		n.attr = -1
		return true
	}
	if n.cur == 0 {
		return false
	}
	n.cur = n.doc.parent(n.cur)
	return true
}

func (n *symNav) MoveToNextAttribute() bool {
	if n.cur == 0 || n.doc.A == 0 || n.doc.kind[n.cur] != 1 {
		return false
	}
	if n.attr+1 >= n.doc.A || n.attr+1 >= n.doc.nattr[n.cur] {
		return false
	}
	n.attr++
	return true
}

func (n *symNav) MoveToChild() bool {
	if n.attr >= 0 {
		return false
	}
	c := n.doc.firstChild(n.cur)
	if c < 0 {
		return false
	}
	n.cur = c
	return true
}

func (n *symNav) MoveToFirst() bool {
	if n.attr >= 0 || n.cur == 0 {
		return false
	}
	p := n.doc.prevSib(n.cur)
	if p < 0 {
		return false
	}
	for p >= 0 {
		n.cur = p
		p = n.doc.prevSib(n.cur)
	}
	return true
}

func (n *symNav) MoveToNext() bool {
	if n.attr >= 0 {
		return false
	}
	s := n.doc.nextSib(n.cur)
	if s < 0 {
		return false
	}
	n.cur = s
	return true
}

func (n *symNav) MoveToPrevious() bool {
	if n.attr >= 0 {
		return false
	}
	s := n.doc.prevSib(n.cur)
	if s < 0 {
		return false
	}
	n.cur = s
	return true
}

func (n *symNav) MoveTo(other NodeNavigator) bool {
	o, ok := other.(*symNav)
	if !ok || o.doc != n.doc {
		return false
	}
	n.cur, n.attr = o.cur, o.attr
	return true
}

// symNavNS additionally exposes NamespaceURL (C14).
type symNavNS struct {
	symNav
}

func (n *symNavNS) NamespaceURL() string {
	if n.attr >= 0 {
		return n.doc.uris[n.doc.auri[n.cur][n.attr]]
	}
	if n.cur == 0 || n.doc.kind[n.cur] != 1 {
		return ""
	}
	return n.doc.uris[n.doc.uri[n.cur]]
}

func (n *symNavNS) Copy() NodeNavigator {
	c := *n
	return &c
}

// the NS variant must not fall back to the embedded symNav's MoveTo for foreign navigators

func (n *symNavNS) MoveTo(other NodeNavigator) bool {
	o, ok := other.(*symNavNS)
	if !ok || o.doc != n.doc {
		return false
	}
	n.cur, n.attr = o.cur, o.attr
	return true
}

// refOf encodes the node a navigator is on: slot*16 + (attr+1).
func refOf(nav NodeNavigator) int {
	switch n := nav.(type) {
	case *symNav:
		return n.cur*16 + n.attr + 1
	case *symNavNS:
		return n.cur*16 + n.attr + 1
	}
	return -1
}

// vContext picks a nondeterministic context node of the document: any existing
// slot, or (when A > 0) any existing attribute of an element slot.
func vContext(doc *symDoc) (cur, attr int) { return vContextNamed(doc, "") }

// vContextNamed: like vContext with input names ctx<tag>, ctxa<tag>.
func vContextNamed(doc *symDoc, tag string) (cur, attr int) {
	cur = vInt("ctx"+tag, 0, doc.N-1)
	attr = -1
	if doc.A > 0 {
		attr = vInt("ctxa"+tag, -1, doc.A-1)
	}
	cur = vConc(cur)
	attr = vConc(attr)
	vAssume(doc.exists(cur))
	if attr >= 0 {
		vAssume(cur > 0)
		vAssume(doc.kind[cur] == 1)
		vAssume(attr < doc.nattr[cur])
	}
	return
}
