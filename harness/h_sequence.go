//go:build verif

package xpath

import "strconv"

func init() {
	vHarnesses["H_sequence"] = H_sequence
	vHarnesses["H_meta"] = H_meta
}

func vSameInts(a, b []int) bool {
	if len(a) != len(b) {
		return false
	}
	for i := range a {
		if a[i] != b[i] {
			return false
		}
	}
	return true
}

func vSameSet(a, b []int) bool {
	for _, x := range a {
		found := false
		for _, y := range b {
			if x == y {
				found = true
			}
		}
		if !found {
			return false
		}
	}
	for _, y := range b {
		found := false
		for _, x := range a {
			if x == y {
				found = true
			}
		}
		if !found {
			return false
		}
	}
	return true
}

// vGuard runs f and classifies a panic that leaves it (0 = none).
func vGuard(f func()) (cls int) {
	defer func() {
		if r := recover(); r != nil {
			cls = vClassifyPanic(r)
			vNote("panic", vPanicText(r))
		}
	}()
	f()
	return 0
}

// H_sequence: iterator protocol and sequence relations of a node-set
// expression (C12): Select order (document order for flat paths), Evaluate
// yields the same sequence, count() is its length, reverse() reverses it,
// MoveNext stays false after the end.
func H_sequence() {
	doc := vDoc()
	cur, attr := vContext(doc)
	expr := vParam("expr")
	max := 4*doc.N*(doc.A+1) + 2
	var got, got2, got3 []int
	var ended, ended2, ended3, isIter, isNum bool
	sameAgain := true
	var cnt float64
	staysDone := true
	extra := vInt("extra", 0, 3)
	cls := vGuard(func() {
		e, err := Compile(expr)
		if err != nil {
			vObserve("compile-error", err.Error())
			vAssert(false, "compiles")
			vStop()
		}
		it := e.Select(navAt(doc, cur, attr))
		got, ended = vDrain(it, max)
		for i := 0; i < extra; i++ {
			if it.MoveNext() {
				staysDone = false
			}
		}
		// the same compiled expression serves Evaluate and a second Select
		if it2, ok := e.Evaluate(navAt(doc, cur, attr)).(*NodeIterator); ok {
			isIter = true
			got2, ended2 = vDrain(it2, max)
		}
		again, endedAgain := vDrain(e.Select(navAt(doc, cur, attr)), max)
		sameAgain = endedAgain && vSameInts(got, again)
		e3, err := Compile("count(" + expr + ")")
		if err == nil {
			cnt, isNum = e3.Evaluate(navAt(doc, cur, attr)).(float64)
		}
		e4, err := Compile("reverse(" + expr + ")")
		if err == nil {
			got3, ended3 = vDrain(e4.Select(navAt(doc, cur, attr)), max)
			// the compiled reverse() and count() expressions serve a second use as well
			again3, endedAgain3 := vDrain(e4.Select(navAt(doc, cur, attr)), max)
			if !endedAgain3 || !vSameInts(got3, again3) {
				sameAgain = false
			}
			if e3 != nil {
				if c2, ok := e3.Evaluate(navAt(doc, cur, attr)).(float64); !ok || c2 != cnt {
					sameAgain = false
				}
			}
		}
	})
	vObserve("panic-class", cls)
	vAssert(cls == 0, "no-panic")
	if cls != 0 {
		return
	}
	vObserve("select", got)
	vObserve("evaluate", got2)
	vObserve("count", cnt)
	vObserve("reverse", got3)
	vAssert(ended, "iterator-terminates")
	vAssert(staysDone, "movenext-stays-false")
	vAssert(isIter && ended2 && vSameInts(got, got2), "evaluate-same-sequence")
	vAssert(sameAgain, "second-select-same-sequence")
	vAssert(isNum && cnt == float64(len(got)), "count-is-length")
	rev := make([]int, len(got))
	for i := range got {
		rev[len(got)-1-i] = got[i]
	}
	vAssert(ended3 && vSameInts(rev, got3), "reverse-reverses")
	if vHasParam("flat") {
		ordered := true
		for i := 1; i < len(got); i++ {
			if got[i-1] >= got[i] {
				ordered = false
			}
		}
		vAssert(ordered, "document-order-no-duplicates")
	}
	vCheckNodeSet("expr", cur, attr, got)
}

// vAddress returns the absolute path addressing the context node:
// /node()[k1]/node()[k2]... (and /@* for an attribute of an element that has
// exactly one attribute).
func vAddress(doc *symDoc, cur, attr int) string {
	var ks []int
	for i := cur; i > 0; i = doc.parent(i) {
		k := 1
		for p := doc.prevSib(i); p >= 0; p = doc.prevSib(p) {
			k++
		}
		ks = append(ks, k)
	}
	s := ""
	for i := len(ks) - 1; i >= 0; i-- {
		s += "/node()[" + strconv.Itoa(ks[i]) + "]"
	}
	if attr >= 0 {
		s += "/@*"
	}
	return s
}

func vSelect(expr string, nav NodeNavigator, max int) (got []int, ok bool) {
	e, err := Compile(expr)
	if err != nil {
		vObserve("compile-error", expr+": "+err.Error())
		return nil, false
	}
	got, ended := vDrain(e.Select(nav), max)
	return got, ended
}

// H_meta: metamorphic relations between engine runs on one symbolic document (C13).
func H_meta() {
	doc := vDoc()
	cur, attr := vContext(doc)
	if attr >= 0 {
		vAssume(doc.nattr[cur] == 1)
	}
	p := vParam("expr")
	mode := vParam("mode")
	max := 4*doc.N*(doc.A+1) + 2
	var a, b []int
	var okA, okB bool
	var ba, bb bool
	cls := vGuard(func() {
		switch mode {
		case "abs": // absolute path: same result from every start node (one compiled expression)
			e, err := Compile(p)
			if err != nil {
				vObserve("compile-error", p+": "+err.Error())
				return
			}
			a, okA = vDrain(e.Select(navAt(doc, cur, attr)), max)
			b, okB = vDrain(e.Select(navAt(doc, 0, -1)), max)
		case "rel": // relative path composes with the context's address
			a, okA = vSelect(p, navAt(doc, cur, attr), max)
			addr := vAddress(doc, cur, attr)
			vObserve("address", addr)
			b, okB = vSelect(addr+"/"+p, navAt(doc, 0, -1), max)
		case "true", "paren", "self-union":
			w := p + "[true()]"
			if mode == "paren" {
				w = "(" + p + ")"
			} else if mode == "self-union" {
				w = p + " | " + p
			}
			a, okA = vSelect(p, navAt(doc, cur, attr), max)
			// the wrapped expression is compiled once and first used from the root: the
			// identity holds at every start node of one compiled expression
			e, err := Compile(w)
			if err != nil {
				vObserve("compile-error", w+": "+err.Error())
				return
			}
			vDrain(e.Select(navAt(doc, 0, -1)), max)
			b, okB = vDrain(e.Select(navAt(doc, cur, attr)), max)
		case "equiv": // two spellings of one path (abbreviation vs expansion): same sequence
			a, okA = vSelect(p, navAt(doc, cur, attr), max)
			b, okB = vSelect(vParam("expr2"), navAt(doc, cur, attr), max)
		case "notnot":
			e1, err1 := Compile("boolean(" + p + ")")
			e2, err2 := Compile("not(not(" + p + "))")
			if err1 == nil && err2 == nil {
				ba, okA = e1.Evaluate(navAt(doc, cur, attr)).(bool)
				bb, okB = e2.Evaluate(navAt(doc, cur, attr)).(bool)
			}
		}
	})
	vObserve("panic-class", cls)
	vAssert(cls == 0, "no-panic")
	if cls != 0 {
		return
	}
	vAssert(okA && okB, "both-runs-complete")
	if mode == "notnot" {
		vObserve("boolean", ba)
		vObserve("notnot", bb)
		vAssert(ba == bb, "not-not-preserves-truth")
		if ba {
			vFlag("nontrivial")
		}
		return
	}
	vObserve("a", a)
	vObserve("b", b)
	if mode == "equiv" {
		vAssert(vSameInts(a, b), "same-sequence:"+mode)
	} else {
		vAssert(vSameSet(a, b), "same-node-set:"+mode)
	}
	if len(a) > 0 {
		vFlag("nontrivial")
	}
}
