//go:build verif

package xpath

// Harness API. Every function here has a native body (used when a solver
// model is replayed against the natively compiled package) and is intercepted
// by name when the harness is executed symbolically by /verif/gosym.

import (
	"encoding/json"
	"fmt"
	"math"
	"os"
	"runtime"
	"sort"
	"strconv"
	"strings"
)

type vCase struct {
	ID      string            `json:"id"`
	Harness string            `json:"harness"`
	Params  map[string]string `json:"params"`
	Inputs  map[string]string `json:"inputs"`
}

type vObs struct {
	Label string `json:"label"`
	Value string `json:"value"`
}

type vResult struct {
	ID           string   `json:"id"`
	Observations []vObs   `json:"observations"`
	Failed       []string `json:"failed_asserts"`
	Escaped      string   `json:"escaped_panic,omitempty"`
	AssumeFailed bool     `json:"assume_failed,omitempty"`
}

var vCur struct {
	c   vCase
	res vResult
}

type vAssumeFail struct{}
type vStopped struct{}

// vHarnesses maps harness names to functions (filled by each h_*.go file's init).
var vHarnesses = map[string]func(){}

func vRunCase(c vCase) (res vResult) {
	vCur.c = c
	vCur.res = vResult{ID: c.ID}
	defer func() {
		if r := recover(); r != nil {
			switch r.(type) {
			case vAssumeFail:
				vCur.res.AssumeFailed = true
			case vStopped:
			default:
				vCur.res.Escaped = fmt.Sprintf("%T: %v", r, r)
			}
		}
		res = vCur.res
	}()
	h, ok := vHarnesses[c.Harness]
	if !ok {
		panic("unknown harness " + c.Harness)
	}
	h()
	return
}

func vRunFile(in, out string) error {
	data, err := os.ReadFile(in)
	if err != nil {
		return err
	}
	var cases []vCase
	if err := json.Unmarshal(data, &cases); err != nil {
		return err
	}
	var results []vResult
	for _, c := range cases {
		results = append(results, vRunCase(c))
	}
	b, _ := json.MarshalIndent(results, "", " ")
	return os.WriteFile(out, b, 0o644)
}

func vParam(key string) string {
	v, ok := vCur.c.Params[key]
	if !ok {
		panic("harness parameter not set: " + key)
	}
	return v
}

func vParamInt(key string) int {
	n, err := strconv.Atoi(vParam(key))
	if err != nil {
		panic(err)
	}
	return n
}

func vHasParam(key string) bool {
	_, ok := vCur.c.Params[key]
	return ok
}

func vInt(name string, lo, hi int) int {
	s, ok := vCur.c.Inputs[name]
	if !ok {
		return lo
	}
	n, err := strconv.Atoi(s)
	if err != nil || n < lo || n > hi {
		return lo
	}
	return n
}

func vBool(name string) bool {
	return vCur.c.Inputs[name] == "true"
}

func vClassSet(class string) []byte {
	var out []byte
	add := func(lo, hi byte) {
		for c := int(lo); c <= int(hi); c++ {
			out = append(out, byte(c))
		}
	}
	switch class {
	case "ascii":
		add(1, 127)
	case "xmlascii":
		out = append(out, 9, 10, 13)
		add(0x20, 0x7e)
	case "name1":
		add('a', 'z')
		add('A', 'Z')
		out = append(out, '_')
	case "namec":
		add('a', 'z')
		add('A', 'Z')
		add('0', '9')
		out = append(out, '_', '-', '.')
	case "digit":
		add('0', '9')
	case "ws":
		out = append(out, 0x20, 9, 10, 13)
	case "punct":
		for c := byte(0x21); c < 0x7f; c++ {
			if !(c >= '0' && c <= '9') && !(c >= 'a' && c <= 'z') && !(c >= 'A' && c <= 'Z') {
				out = append(out, c)
			}
		}
	default:
		if strings.HasPrefix(class, "set:") {
			out = []byte(class[4:])
		} else {
			panic("unknown byte class " + class)
		}
	}
	return out
}

func vByte(name string, class string) byte {
	set := vClassSet(class)
	s, ok := vCur.c.Inputs[name]
	if !ok {
		return set[0]
	}
	n, err := strconv.Atoi(s)
	if err != nil {
		return set[0]
	}
	for _, b := range set {
		if int(b) == n {
			return b
		}
	}
	return set[0]
}

func vStr(name string, maxLen int, class string) string {
	n := vInt(name+"#len", 0, maxLen)
	bs := make([]byte, n)
	for i := 0; i < n; i++ {
		bs[i] = vByte(name+"#"+strconv.Itoa(i), class)
	}
	return string(bs)
}

// vFloat mode: "finite" or "any".
func vFloat(name string, mode string) float64 {
	s, ok := vCur.c.Inputs[name]
	if !ok || !strings.HasPrefix(s, "f:") {
		return 0
	}
	u, err := strconv.ParseUint(s[2:], 16, 64)
	if err != nil {
		return 0
	}
	f := math.Float64frombits(u)
	if mode == "finite" && (f != f || math.IsInf(f, 0)) {
		return 0
	}
	return f
}

func vAssume(c bool) {
	if !c {
		panic(vAssumeFail{})
	}
}

func vAssert(c bool, label string) {
	if !c {
		vCur.res.Failed = append(vCur.res.Failed, label)
	}
}

// vAssertInfo is vAssert with a detail string for reports.
func vAssertInfo(c bool, label string, info string) { vAssert(c, label) }

// vNote records free text for reports; it is not compared between the executor and the native run.
func vNote(label string, text string) {}

func vReach(label string) {}
func vFlag(label string)  {}
func vStop()              { panic(vStopped{}) }

// vConc returns x as a plain concrete value (under the symbolic executor: one
// path per feasible value, in a canonical order).
func vConc(x int) int { return x }

// vSymbolic reports whether the harness runs inside the symbolic executor.
func vSymbolic() bool { return false }

// vOr / vAnd / vNot / vImplies: non-short-circuit connectives (one term, no fork).
func vOr(a, b bool) bool      { return a || b }
func vAnd(a, b bool) bool     { return a && b }
func vNot(a bool) bool        { return !a }
func vImplies(a, b bool) bool { return !a || b }

func vRender(v interface{}) string {
	switch v := v.(type) {
	case nil:
		return "nil"
	case bool:
		return strconv.FormatBool(v)
	case int:
		return strconv.Itoa(v)
	case float64:
		if v != v {
			return "NaN"
		}
		return "f:" + strconv.FormatUint(math.Float64bits(v), 16)
	case string:
		return strconv.Quote(v)
	case []int:
		parts := make([]string, len(v))
		for i := range v {
			parts[i] = strconv.Itoa(v[i])
		}
		return "[" + strings.Join(parts, ",") + "]"
	case []string:
		parts := make([]string, len(v))
		for i := range v {
			parts[i] = strconv.Quote(v[i])
		}
		return "[" + strings.Join(parts, ",") + "]"
	}
	return fmt.Sprintf("<%T>", v)
}

func vObserve(label string, v interface{}) {
	vCur.res.Observations = append(vCur.res.Observations, vObs{Label: label, Value: vRender(v)})
}

// vClassifyPanic: 0 none, 1 Go run-time error, 2 foreign error (created by
// another package, e.g. *strconv.NumError), 3 error created by package xpath
// (errors.New / fmt.Errorf), 4 any other value.
func vClassifyPanic(r interface{}) int {
	if r == nil {
		return 0
	}
	if _, ok := r.(runtime.Error); ok {
		return 1
	}
	if e, ok := r.(error); ok {
		t := fmt.Sprintf("%T", e)
		if t == "*errors.errorString" || strings.HasPrefix(t, "*fmt.") || strings.HasPrefix(t, "*xpath.") || strings.HasPrefix(t, "xpath.") {
			return 3
		}
		return 2
	}
	return 4
}

func vPanicText(r interface{}) string {
	if r == nil {
		return ""
	}
	return fmt.Sprint(r)
}

func vSortedKeys(m map[string]string) []string {
	var ks []string
	for k := range m {
		ks = append(ks, k)
	}
	sort.Strings(ks)
	return ks
}
