//go:build verif

package xpath

func init() {
	vHarnesses["H_total"] = H_total
}

// vKindOf names the dynamic type of an Evaluate result.
func vKindOf(v interface{}) string {
	switch v.(type) {
	case bool:
		return "bool"
	case float64:
		return "float64"
	case string:
		return "string"
	case *NodeIterator:
		return "iterator"
	case nil:
		return "nil"
	case int:
		return "int"
	}
	return "other"
}

// H_total (C15): whatever Compile accepted, Select and Evaluate on any
// document either produce a value of a documented type or abort with an error
// value created by package xpath: never a Go run-time error, never an error
// leaked from another package.
func H_total() {
	doc := vDoc()
	cur, attr := vContext(doc)
	e, err := vCompileHoles(vParam("expr"))
	if err != nil {
		vObserve("compile-error", "rejected")
		vAssert(true, "compile-rejected")
		return
	}
	max := 2*doc.N*(doc.A+1) + 2
	kind := ""
	clsE := vGuard(func() {
		if vHasParam("canary") {
			var q query // deliberately wrong: a nil query is dereferenced
			q.Select(nil)
		}
		v := e.Evaluate(navAt(doc, cur, attr))
		kind = vKindOf(v)
		if it, ok := v.(*NodeIterator); ok {
			vDrain(it, max)
		}
	})
	vObserve("evaluate-panic-class", clsE)
	vObserve("evaluate-kind", kind)
	clsS := vGuard(func() {
		vDrain(e.Select(navAt(doc, cur, attr)), max)
	})
	vObserve("select-panic-class", clsS)
	vFlag("nontrivial")
	vAssert(clsE != 1, "evaluate:no-go-runtime-error")
	vAssert(clsE != 2, "evaluate:no-foreign-error")
	vAssert(clsS != 1, "select:no-go-runtime-error")
	vAssert(clsS != 2, "select:no-foreign-error")
	if clsE == 0 {
		// the call site is part of the finding's identity: the outermost function of the expression
		top := vParam("expr")
		for i := 0; i < len(top); i++ {
			if top[i] == '(' {
				top = top[:i]
				break
			}
		}
		vAssertInfo(kind == "bool" || kind == "float64" || kind == "string" || kind == "iterator", "evaluate:documented-result-type",
			"site=Evaluate result of outermost "+top+"() has Go type "+kind)
	}
}
