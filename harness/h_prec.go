//go:build verif

package xpath

func init() {
	vHarnesses["H_prec"] = H_prec
}

// vParseGuard runs the real parser; ok=false when it panicked.
func vParseGuard(expr string) (n node, ok bool) {
	defer func() {
		if r := recover(); r != nil {
			n, ok = nil, false
		}
	}()
	return parse(expr, nil), true
}

// vSameAST: structural equality of two parse trees (the text of the root
// node's slash is ignored: "//" is spelled differently from its expansion).
func vSameAST(a, b node) bool {
	if a == nil || b == nil {
		return a == nil && b == nil
	}
	switch x := a.(type) {
	case *rootNode:
		_, ok := b.(*rootNode)
		return ok
	case *operatorNode:
		y, ok := b.(*operatorNode)
		return ok && x.Op == y.Op && vAnd(vSameAST(x.Left, y.Left), vSameAST(x.Right, y.Right))
	case *axisNode:
		y, ok := b.(*axisNode)
		if !ok {
			return false
		}
		// Prop only records how the node test was spelled (it feeds String()); the
		// meaning is in AxisType, the name and typeTest
		same := vAnd(x.AxisType == y.AxisType, vAnd(x.LocalName == y.LocalName, x.Prefix == y.Prefix))
		same = vAnd(same, x.typeTest == y.typeTest)
		return vAnd(same, vSameAST(x.Input, y.Input))
	case *operandNode:
		y, ok := b.(*operandNode)
		if !ok {
			return false
		}
		switch v := x.Val.(type) {
		case string:
			w, ok := y.Val.(string)
			return ok && v == w
		case float64:
			w, ok := y.Val.(float64)
			return ok && v == w
		}
		return false
	case *filterNode:
		y, ok := b.(*filterNode)
		return ok && vAnd(vSameAST(x.Input, y.Input), vSameAST(x.Condition, y.Condition))
	case *functionNode:
		y, ok := b.(*functionNode)
		if !ok || len(x.Args) != len(y.Args) {
			return false
		}
		same := vAnd(x.FuncName == y.FuncName, x.Prefix == y.Prefix)
		for i := range x.Args {
			same = vAnd(same, vSameAST(x.Args[i], y.Args[i]))
		}
		return same
	case *groupNode:
		y, ok := b.(*groupNode)
		return ok && vSameAST(x.Input, y.Input)
	case *variableNode:
		y, ok := b.(*variableNode)
		return ok && x.Name == y.Name && x.Prefix == y.Prefix
	}
	return false
}

type vShape struct {
	op          string // "" for a leaf
	left, right *vShape
	leaf        int
}

// vParseShape reads a prefix term: "(op L R)", "(neg X)" or an operand index.
func vParseShape(s string, pos *int) *vShape {
	for *pos < len(s) && s[*pos] == ' ' {
		*pos++
	}
	if s[*pos] == '(' {
		*pos++
		st := *pos
		for s[*pos] != ' ' {
			*pos++
		}
		sh := &vShape{op: s[st:*pos]}
		sh.left = vParseShape(s, pos)
		if sh.op != "neg" {
			sh.right = vParseShape(s, pos)
		}
		for s[*pos] == ' ' {
			*pos++
		}
		*pos++ // ')'
		return sh
	}
	n := 0
	for *pos < len(s) && s[*pos] >= '0' && s[*pos] <= '9' {
		n = n*10 + int(s[*pos]-'0')
		*pos++
	}
	return &vShape{leaf: n}
}

// vMatchShape: the parse tree n has the reference shape; operand k is the piece
// kinds[k] with text texts[k] (N: child step of that name, S: string literal
// with that content, D: that number).
func vMatchShape(n node, sh *vShape, kinds []byte, texts []string, nums []float64) bool {
	if sh.op == "" {
		switch kinds[sh.leaf] {
		case 'N':
			x, ok := n.(*axisNode)
			if !ok || x.Input != nil {
				return false
			}
			return vAnd(vAnd(x.AxisType == "child", x.LocalName == texts[sh.leaf]), vAnd(x.Prefix == "", x.Prop == ""))
		case 'Q':
			x, ok := n.(*axisNode)
			if !ok || x.Input != nil {
				return false
			}
			return vAnd(vAnd(x.AxisType == "child", x.LocalName == texts[sh.leaf]), x.Prefix == "p")
		case 'S':
			x, ok := n.(*operandNode)
			if !ok {
				return false
			}
			v, ok := x.Val.(string)
			return ok && v == texts[sh.leaf]
		case 'D':
			x, ok := n.(*operandNode)
			if !ok {
				return false
			}
			v, ok := x.Val.(float64)
			return ok && v == nums[sh.leaf]
		}
		return false
	}
	x, ok := n.(*operatorNode)
	if !ok {
		return false
	}
	if sh.op == "neg" {
		// the engine encodes -x as x * -1
		r, ok := x.Right.(*operandNode)
		if !ok || x.Op != "*" {
			return false
		}
		f, ok := r.Val.(float64)
		return ok && f == -1 && vMatchShape(x.Left, sh.left, kinds, texts, nums)
	}
	return x.Op == sh.op && vAnd(vMatchShape(x.Left, sh.left, kinds, texts, nums), vMatchShape(x.Right, sh.right, kinds, texts, nums))
}

// H_prec (C10): mode "shape": the real parser groups an operator chain (with
// symbolic operand tokens and symbolic whitespace gaps) exactly as the reference
// shape; mode "abbrev": an abbreviated path and its expansion parse to the same tree.
func H_prec() {
	switch vParam("mode") {
	case "shape":
		memo := map[string]string{}
		ops := vSplit(vParam("opnds"))
		kinds := make([]byte, len(ops))
		texts := make([]string, len(ops))
		nums := make([]float64, len(ops))
		for i, p := range ops {
			kinds[i] = p[0]
			switch p[0] {
			case 'N':
				texts[i] = vPiece(p, memo)
			case 'Q':
				texts[i] = vPiece("N"+p[1:], memo)
			case 'S':
				full := vPiece(p, memo)
				texts[i] = full[1 : len(full)-1]
			default: // concrete number
				kinds[i] = 'D'
				f := 0.0
				for k := 0; k < len(p); k++ {
					f = f*10 + float64(p[k]-'0')
				}
				nums[i] = f
			}
		}
		expr := vTemplate(vParam("tpl"))
		vNote("expr", expr)
		n, ok := vParseGuard(expr)
		vObserve("parsed", ok)
		vFlag("nontrivial")
		vAssert(ok, "parses")
		if !ok {
			return
		}
		pos := 0
		sh := vParseShape(vParam("shape"), &pos)
		vAssert(vMatchShape(n, sh, kinds, texts, nums), "tree-has-xpath-grouping")
	case "abbrev":
		a := vTemplate(vParam("tpl"))
		b := vTemplate(vParam("tpl2"))
		vNote("abbreviated", a)
		vNote("expanded", b)
		n1, ok1 := vParseGuard(a)
		n2, ok2 := vParseGuard(b)
		vObserve("parsed", ok1 && ok2)
		vFlag("nontrivial")
		vAssert(ok1 && ok2, "both-parse")
		if ok1 && ok2 {
			vAssert(vSameAST(n1, n2), "abbreviation-means-expansion")
		}
	}
}
