//go:build verif

package xpath

func init() {
	vHarnesses["H_value"] = H_value
}

// Oracle obligations on scalar results (no-ops natively; the observation is
// compared with the executor's prediction instead).
func vCheckBool(key string, cur, attr int, got bool)   {}
func vCheckNum(key string, cur, attr int, got float64) {}
func vCheckStr(key string, cur, attr int, got string)  {}

// H_value: Evaluate(expr) at a nondeterministic context of a nondeterministic
// document, with nondeterministic literals (holes), yields exactly the
// reference value, and never panics (C07, C08, C09, C14, C16 wiring).
func H_value() {
	doc := vDoc()
	cur, attr := vContext(doc)
	var e *Expr
	var err error
	if vHasParam("nsmap") {
		e, err = CompileWithNS(vParam("expr"), vNSMap(vParam("nsmap")))
	} else {
		e, err = vCompileHoles(vParam("expr"))
	}
	if err != nil {
		vObserve("compile-error", "rejected")
		vAssert(false, "compiles")
		return
	}
	var v interface{}
	var got []int
	ended := true
	cls := vGuard(func() {
		v = e.Evaluate(vNav(doc, cur, attr))
		if it, ok := v.(*NodeIterator); ok {
			got, ended = vDrain(it, 4*doc.N*(doc.A+1)+2)
		}
	})
	vObserve("panic-class", cls)
	vAssert(cls == 0, "no-panic")
	if cls != 0 {
		return
	}
	vFlag("nontrivial")
	switch x := v.(type) {
	case bool:
		vObserve("bool", x)
		vCheckBool("expr", cur, attr, x)
	case float64:
		vObserve("number", x)
		vCheckNum("expr", cur, attr, x)
	case string:
		vObserve("string", x)
		vCheckStr("expr", cur, attr, x)
	case *NodeIterator:
		vObserve("nodes", got)
		vAssert(ended, "iterator-terminates")
		vCheckNodeSet("expr", cur, attr, got)
	default:
		vObserve("kind", vKindOf(v))
		vAssert(false, "documented-result-type")
	}
}

// vNav builds the navigator variant selected by parameter "nav" (plain: symNav;
// "ns": symNavNS exposing NamespaceURL).
func vNav(doc *symDoc, cur, attr int) NodeNavigator {
	if vHasParam("nav") && vParam("nav") == "ns" {
		return &symNavNS{symNav{doc: doc, cur: cur, attr: attr}}
	}
	return navAt(doc, cur, attr)
}
