//go:build verif

package xpath

func init() {
	vHarnesses["H_value"] = H_value
}

// Oracle obligations on scalar results (no-ops natively; the observation is
// compared with the executor's prediction instead).
func vCheckBool(key string, cur, attr int, got bool)   {}
func vCheckNum(key string, cur, attr int, got float64) {}
func vCheckStr(key string, cur, attr int, got string)  {}

// H_value: Evaluate(expr) at a nondeterministic context of a nondeterministic
// document, with nondeterministic literals (holes), yields exactly the
// reference value, and never panics (C07, C08, C09, C14, C16 wiring).
func H_value() {
	doc := vDoc()
	cur, attr := vContext(doc)
	var e *Expr
	var err error
	if vHasParam("nsmap") {
		e, err = CompileWithNS(vParam("expr"), vNSMap(vParam("nsmap")))
	} else {
		e, err = vCompileHoles(vParam("expr"))
	}
	if err != nil {
		vObserve("compile-error", "rejected")
		vAssert(false, "compiles")
		return
	}
	if vHasParam("prelude") {
		// an earlier evaluation (which may abort with an error of the package) must not
		// influence the one that is checked
		if e0, err0 := Compile(vParam("prelude")); err0 == nil {
			vGuard(func() { e0.Evaluate(vNav(doc, cur, attr)) })
		}
	}
	if !vEvalAndCheck(e, doc, cur, attr, "expr", "") {
		return
	}
	if vHasParam("reuse") {
		// the same compiled expression yields the same value when it is evaluated again
		vEvalAndCheck(e, doc, cur, attr, "reuse", "-second-use")
	}
}

// vEvalAndCheck evaluates e at (cur, attr) and raises the value obligation against the
// oracle expression key; sfx distinguishes the labels of a repeated evaluation.
func vEvalAndCheck(e *Expr, doc *symDoc, cur, attr int, key, sfx string) bool {
	var v interface{}
	var got []int
	ended := true
	cls := vGuard(func() {
		v = e.Evaluate(vNav(doc, cur, attr))
		if it, ok := v.(*NodeIterator); ok {
			got, ended = vDrain(it, 4*doc.N*(doc.A+1)+2)
		}
	})
	vObserve("panic-class"+sfx, cls)
	vAssert(cls == 0, "no-panic"+sfx)
	if cls != 0 {
		return false
	}
	vFlag("nontrivial")
	switch x := v.(type) {
	case bool:
		vObserve("bool"+sfx, x)
		vCheckBool(key, cur, attr, x)
	case float64:
		vObserve("number"+sfx, x)
		vCheckNum(key, cur, attr, x)
	case string:
		vObserve("string"+sfx, x)
		vCheckStr(key, cur, attr, x)
	case *NodeIterator:
		vObserve("nodes"+sfx, got)
		vAssert(ended, "iterator-terminates"+sfx)
		vCheckNodeSet(key, cur, attr, got)
	default:
		vObserve("kind"+sfx, vKindOf(v))
		vAssert(false, "documented-result-type"+sfx)
	}
	return true
}

// vNav builds the navigator variant selected by parameter "nav" (plain: symNav;
// "ns": symNavNS exposing NamespaceURL).
func vNav(doc *symDoc, cur, attr int) NodeNavigator {
	if vHasParam("nav") && vParam("nav") == "ns" {
		return &symNavNS{symNav{doc: doc, cur: cur, attr: attr}}
	}
	return navAt(doc, cur, attr)
}
