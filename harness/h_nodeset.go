//go:build verif

package xpath

func init() {
	vHarnesses["H_nodeset"] = H_nodeset
}

// vCheckNodeSet: under the symbolic executor this raises the obligation
// "set(got) = reference node-set of expression <key>"; natively it is a no-op
// (the observation is compared with the executor's prediction instead).
func vCheckNodeSet(key string, cur, attr int, got []int) {}

// vDrain runs an iterator to its end (at most max results) and returns the
// node references it yielded; ended reports whether MoveNext returned false.
func vDrain(it *NodeIterator, max int) (got []int, ended bool) {
	for len(got) < max {
		if !it.MoveNext() {
			return got, true
		}
		got = append(got, refOf(it.Current()))
	}
	return got, false
}

// H_nodeset: Select(expr) at a nondeterministic context of a nondeterministic
// document returns exactly the reference node-set (C01, C02, C03, C11).
func H_nodeset() {
	doc := vDoc()
	cur, attr := vContext(doc)
	var e *Expr
	var err error
	if vHasParam("nsmap") {
		e, err = CompileWithNS(vParam("expr"), vNSMap(vParam("nsmap")))
	} else {
		e, err = Compile(vParam("expr"))
	}
	if vHasParam("expecterr") {
		// an unbound prefix is a compile error
		vObserve("compile-rejected", err != nil)
		vFlag("nontrivial")
		vAssert(err != nil && e == nil, "unbound-prefix-rejected")
		return
	}
	if err != nil {
		vObserve("compile-error", err.Error())
		vAssert(false, "compiles")
		return
	}
	var got []int
	ended := false
	cls := 0
	func() {
		defer func() {
			if r := recover(); r != nil {
				cls = vClassifyPanic(r)
				vNote("panic", vPanicText(r))
			}
		}()
		it := e.Select(vNav(doc, cur, attr))
		got, ended = vDrain(it, 4*doc.N*(doc.A+1)+2)
	}()
	vObserve("panic-class", cls)
	vAssert(cls == 0, "no-panic")
	if cls != 0 {
		return
	}
	vObserve("got", got)
	vAssert(ended, "iterator-terminates")
	vCheckNodeSet("expr", cur, attr, got)
	if vHasParam("reuse") {
		// the same compiled expression selects the same set when it is used again
		var again []int
		ended2 := false
		cls2 := vGuard(func() {
			it := e.Select(vNav(doc, cur, attr))
			again, ended2 = vDrain(it, 4*doc.N*(doc.A+1)+2)
		})
		vObserve("panic-class-second-use", cls2)
		vAssert(cls2 == 0, "no-panic-second-use")
		if cls2 == 0 {
			vObserve("got-second-use", again)
			vAssert(ended2, "iterator-terminates-second-use")
			vCheckNodeSet("reuse", cur, attr, again)
		}
	}
	if vHasParam("nodup") {
		dup := false
		for i := range got {
			for j := 0; j < i; j++ {
				if got[i] == got[j] {
					dup = true
				}
			}
		}
		vAssert(!dup, "each-node-once")
	}
}

// vNSMap decodes "nil", "empty" or "p=u1;q=u2".
func vNSMap(spec string) map[string]string {
	if spec == "nil" {
		return nil
	}
	m := map[string]string{}
	if spec == "empty" {
		return m
	}
	k, v, inVal := "", "", false
	for i := 0; i <= len(spec); i++ {
		if i == len(spec) || spec[i] == ';' {
			m[k] = v
			k, v, inVal = "", "", false
			continue
		}
		if spec[i] == '=' {
			inVal = true
			continue
		}
		if inVal {
			v += string(spec[i])
		} else {
			k += string(spec[i])
		}
	}
	return m
}
