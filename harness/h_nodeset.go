//go:build verif

package xpath

func init() {
	vHarnesses["H_nodeset"] = H_nodeset
}

// vCheckNodeSet: under the symbolic executor this raises the obligation
// "set(got) = reference node-set of expression <key>"; natively it is a no-op
// (the observation is compared with the executor's prediction instead).
func vCheckNodeSet(key string, cur, attr int, got []int) {}

// vDrain runs an iterator to its end (at most max results) and returns the
// node references it yielded; ended reports whether MoveNext returned false.
func vDrain(it *NodeIterator, max int) (got []int, ended bool) {
	for len(got) < max {
		if !it.MoveNext() {
			return got, true
		}
		got = append(got, refOf(it.Current()))
	}
	return got, false
}

// H_nodeset: Select(expr) at a nondeterministic context of a nondeterministic
// document returns exactly the reference node-set (C01, C02, C03, C11).
func H_nodeset() {
	doc := vDoc()
	cur, attr := vContext(doc)
	e, err := Compile(vParam("expr"))
	if err != nil {
		vObserve("compile-error", err.Error())
		vAssert(false, "compiles")
		return
	}
	var got []int
	ended := false
	cls := 0
	func() {
		defer func() {
			if r := recover(); r != nil {
				cls = vClassifyPanic(r)
				vNote("panic", vPanicText(r))
			}
		}()
		it := e.Select(navAt(doc, cur, attr))
		got, ended = vDrain(it, 4*doc.N*(doc.A+1)+2)
	}()
	vObserve("panic-class", cls)
	vAssert(cls == 0, "no-panic")
	if cls != 0 {
		return
	}
	vObserve("got", got)
	vAssert(ended, "iterator-terminates")
	vCheckNodeSet("expr", cur, attr, got)
	if vHasParam("nodup") {
		dup := false
		for i := range got {
			for j := 0; j < i; j++ {
				if got[i] == got[j] {
					dup = true
				}
			}
		}
		vAssert(!dup, "each-node-once")
	}
}
