//go:build verif

package xpath

import "strconv"

func init() {
	vHarnesses["H_identity"] = H_identity
}

// posNav is an abstract navigator positioned on one node described by its
// kind, names and its position path: pos[0] is the node's 1-based index among
// its siblings, pos[1] its parent's index, ... up to (not including) the root.
// It supports exactly what the identity key computation uses.
type posNav struct {
	kind                NodeType
	name, prefix, value string
	pos                 []int
	lvl, moved          int
}

func (n *posNav) NodeType() NodeType {
	if n.lvl > 0 {
		return ElementNode
	}
	return n.kind
}
func (n *posNav) LocalName() string         { return n.name }
func (n *posNav) Prefix() string            { return n.prefix }
func (n *posNav) Value() string             { return n.value }
func (n *posNav) Copy() NodeNavigator       { c := *n; return &c }
func (n *posNav) MoveToRoot()               {}
func (n *posNav) MoveToNextAttribute() bool { return false }
func (n *posNav) MoveToChild() bool         { return false }
func (n *posNav) MoveToFirst() bool         { return false }
func (n *posNav) MoveToNext() bool          { return false }
func (n *posNav) MoveTo(NodeNavigator) bool { return false }
func (n *posNav) MoveToPrevious() bool {
	if n.lvl == 0 && n.kind == AttributeNode {
		return false
	}
	if n.moved < n.pos[n.lvl]-1 {
		n.moved++
		return true
	}
	return false
}
func (n *posNav) MoveToParent() bool {
	if n.lvl+1 < len(n.pos) {
		n.lvl++
		n.moved = 0
		return true
	}
	return false
}

var vPosTable = []int{1, 2, 11}

func vPosNode(tag string) *posNav {
	kinds := []NodeType{ElementNode, TextNode, CommentNode, AttributeNode}
	n := &posNav{kind: kinds[vParamInt("kind"+tag)]}
	depth := vConc(vInt(tag+"depth", 1, 3))
	for l := 0; l < depth; l++ {
		n.pos = append(n.pos, vPosTable[vConc(vInt(tag+"p"+strconv.Itoa(l), 0, len(vPosTable)-1))])
	}
	if n.kind == AttributeNode {
		n.pos[0] = 1 // an attribute has no preceding siblings; pos[1:] is its element's path
		vAssume(depth >= 2)
	}
	switch n.kind {
	case ElementNode, AttributeNode:
		nm := vStr(tag+"name", 2, "set:ab-1")
		vAssume(len(nm) >= 1)
		vAssume(vOr(nm[0] == 'a', nm[0] == 'b'))
		n.name = nm
		if n.kind == AttributeNode {
			// attributes of one element may share a local name under different prefixes
			n.prefix = []string{"", "p"}[vConc(vInt(tag+"pfx", 0, 1))]
		}
	case TextNode, CommentNode:
		// navigators in the field report a text or comment node's data as its local
		// name (or nothing): either is allowed
		if vBool(tag + "dataname") {
			n.name = vStr(tag+"name", 1, "set:ab-1")
		}
	}
	if n.kind != ElementNode {
		n.value = vStr(tag+"val", 1, "set:a=-1")
	}
	return n
}

func vSamePath(x, y *posNav) bool {
	if len(x.pos) != len(y.pos) {
		return false
	}
	for i := range x.pos {
		if x.pos[i] != y.pos[i] {
			return false
		}
	}
	return true
}

// H_identity (C11 identity kernel): two nodes of one document get the same
// identity key if and only if they are the same node, for position paths with
// one- and two-digit sibling indices and names/values containing '-', '=' and digits.
func H_identity() {
	x, y := vPosNode("x"), vPosNode("y")
	hx := getHashCode(x.Copy())
	hy := getHashCode(y.Copy())
	vFlag("nontrivial")
	xa, ya := x.kind == AttributeNode, y.kind == AttributeNode
	switch {
	case vSamePath(x, y) && !xa && !ya:
		// one position, one node: its kind, name and value are what they are
		vAssume(x.kind == y.kind)
		vAssume(x.name == y.name)
		vAssume(x.value == y.value)
		vObserve("same-node", true)
		vAssert(hx == hy, "one-node-one-key")
	case vSamePath(x, y) && xa && ya:
		// two attributes of one element are the same node iff they have the same qualified name
		same := vAnd(x.name == y.name, x.prefix == y.prefix)
		vAssume(vImplies(same, x.value == y.value))
		vObserve("same-element-attributes", true)
		vAssert((hx == hy) == same, "attributes-identified-by-qualified-name")
	default:
		vObserve("same-node", false)
		vAssert(hx != hy, "different-nodes-different-keys")
	}
}
