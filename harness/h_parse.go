//go:build verif

package xpath

import (
	"runtime/debug"
	"strings"
)

func init() {
	vHarnesses["H_reject"] = H_reject
	vHarnesses["H_compile"] = H_compile
	vHarnesses["H_deepnest"] = H_deepnest
	vHarnesses["H_guard"] = H_guard
}

// vNotNames assumes that the symbolic name piece is none of the listed words
// (parameter "notnames": piece=word1|word2,...).
func vInputExpr() string {
	if vHasParam("tpl") {
		return vTemplate(vParam("tpl"))
	}
	// free string of up to L bytes (0x00 excluded: the scanner treats NUL as end of input)
	return vStr("in", vParamInt("L"), "ascii")
}

func vExcluded(expr string) {
	// parameter "exclude": comma separated words the whole expression must differ from
	if vHasParam("exclude") {
		for _, w := range vSplit(vParam("exclude")) {
			vAssume(expr != w)
		}
	}
}

// H_reject (C17): a damaged expression is rejected by Compile, whatever the
// contents of its remaining tokens.
func H_reject() {
	expr := vInputExpr()
	if vHasParam("notfunc") {
		// the renamed function / axis piece must not spell a supported short name
		nm := vTemplate(vParam("notfunc"))
		for _, w := range []string{"not", "sum"} {
			vAssume(nm != w)
		}
	}
	vNote("expr", expr)
	var e *Expr
	var err error
	cls := vGuard(func() {
		e, err = Compile(expr)
	})
	vObserve("panic-class", cls)
	vObserve("rejected", err != nil)
	vFlag("nontrivial")
	vAssert(cls == 0, "no-panic-escapes")
	vAssert(err != nil && e == nil, "damaged-expression-rejected")
}

// H_compile (C06 a-c): Compile / CompileWithNS / MustCompile are total and
// return exactly one of (usable expression, error).
func H_compile() {
	expr := vInputExpr()
	vNote("expr", expr)
	var e, e2, e3 *Expr
	var err, err2, err4 error
	ns := map[string]string(nil)
	switch vParam("ns") {
	case "empty":
		ns = map[string]string{}
	case "p":
		ns = map[string]string{"p": "u", "N": "u"}
	}
	cls := vGuard(func() {
		e, err = Compile(expr)
		e2, err2 = CompileWithNS(expr, ns)
		e3 = MustCompile(expr)
		_, err4 = Compile(expr)
	})
	vObserve("panic-class", cls)
	vObserve("compiled", err == nil)
	vObserve("compiled-ns", err2 == nil)
	vFlag("nontrivial")
	vAssert(cls == 0, "no-panic-escapes")
	if cls != 0 {
		return
	}
	vAssert((e != nil && e.q != nil && err == nil) || (e == nil && err != nil), "exactly-one-of-expr-error")
	if e != nil && err == nil {
		// "usable": the returned expression can be evaluated and iterated on a small
		// document without a Go run-time error
		doc := vTinyDoc()
		use := vGuard(func() {
			if it, ok := e.Evaluate(navAt(doc, 1, -1)).(*NodeIterator); ok {
				vDrain(it, 8)
			}
			vDrain(e.Select(navAt(doc, 1, -1)), 8)
			if e3 != nil {
				vDrain(e3.Select(navAt(doc, 0, -1)), 8)
			}
		})
		vObserve("use-panic-class", use)
		vAssert(use != 1, "returned-expression-is-usable")
	}
	// the verdict on one input is the same every time it is compiled
	vAssert((err == nil) == (err4 == nil), "same-verdict-when-compiled-again")
	if ns == nil {
		vAssert((err == nil) == (err2 == nil), "same-verdict-with-nil-namespace-map")
	}
	vAssert((e2 != nil && e2.q != nil && err2 == nil) || (e2 == nil && err2 != nil), "exactly-one-of-expr-error:ns")
	vAssert(e3 != nil && e3.q != nil, "mustcompile-usable")
}

// H_deepnest (C06 d): nesting prefix + unit^n + core + close^n. Under the
// symbolic executor n is small and the re-entry monitor checks that every
// recursive re-entry of a parser/builder function happens at a strictly larger
// guard counter; natively (replay) n is large and Compile must report the
// nesting as an error instead of accepting it.
func H_deepnest() {
	n := vParamInt("n")
	if !vSymbolic() && vHasParam("native_n") {
		n = vParamInt("native_n")
	}
	expr := vParam("prefix") + strings.Repeat(vParam("unit"), n) + vParam("core") + strings.Repeat(vParam("close"), n)
	vReentryWatch()
	if !vSymbolic() {
		// scaled-down witness of stack exhaustion: a small stack limit instead of a 10^7-byte input
		debug.SetMaxStack(16 << 20)
	}
	var err error
	cls := vGuard(func() {
		_, err = Compile(expr)
	})
	vObserve("panic-class", cls)
	viol := vReentryViolations()
	vFlag("nontrivial")
	vAssert(cls == 0, "no-panic-escapes")
	if vSymbolic() {
		vAssertInfo(viol == "", "bounded-recursion:re-entry-at-larger-counter", viol)
		return
	}
	// native: deep nesting must be reported as an error (flat repetitions without a
	// native_n parameter only have to terminate)
	if vHasParam("native_n") {
		vAssert(err != nil, "deep-nesting-rejected")
	}
}

// Re-entry monitor API (symbolic executor only).
func vReentryWatch()             {}
func vReentryViolations() string { return "" }

// H_guard (C06 e): the depth guards bite. The real parseExpression /
// processNode are started from a nondeterministic counter value; whenever the
// counter is at its limit the call aborts with the "too complex" error.
func H_guard() {
	d := vInt("d", 0, 1<<40)
	switch vParam("which") {
	case "parser":
		r := &scanner{text: vParam("input")}
		r.nextChar()
		r.nextItem()
		p := &parser{r: r, d: d}
		msg := ""
		func() {
			defer func() {
				if x := recover(); x != nil {
					if s, ok := x.(string); ok {
						msg = s
					} else {
						msg = "other"
					}
				}
			}()
			p.parseExpression(nil)
		}()
		vObserve("aborted", msg != "")
		limit := 200
		if vHasParam("canary") {
			limit = 100 // deliberately wrong limit: the guard does not bite between 100 and 199
		}
		if d >= limit {
			vFlag("nontrivial")
			vAssert(msg == "the xpath query is too complex(depth > 200)", "parser-guard-bites")
		} else {
			vAssert(true, "below-limit")
		}
	case "builder":
		root := parse(vParam("input"), nil)
		b := &builder{parseDepth: d}
		props := builderProps.None
		_, err := b.processNode(root, flagsEnum.None, &props)
		vObserve("aborted", err != nil)
		if d >= 1024 {
			vFlag("nontrivial")
			vAssert(err != nil && err.Error() == "the xpath expressions is too complex", "builder-guard-bites")
		} else {
			vAssert(true, "below-limit")
		}
	}
}

// vTinyDoc: <a k="1"><b>x</b></a> as concrete symDoc arrays.
func vTinyDoc() *symDoc {
	N := 4
	doc := &symDoc{N: N, A: 1, names: []string{"a", "b", "k"}, pool: []string{"", "1", "x"}, prefixes: []string{""}, uris: []string{""}}
	doc.d = []int{0, 1, 2, 3}
	doc.kind = []int{0, 1, 1, 3}
	doc.name = []int{0, 0, 1, 0}
	doc.pfx, doc.uri = make([]int, N), make([]int, N)
	doc.val = []int{0, 2, 2, 2}
	doc.nattr = []int{0, 1, 0, 0}
	doc.aname, doc.apfx, doc.auri, doc.aval = make([][]int, N), make([][]int, N), make([][]int, N), make([][]int, N)
	doc.mChild, doc.mNext, doc.mPrev, doc.mParent = make([]int, N), make([]int, N), make([]int, N), make([]int, N)
	for i := 0; i < N; i++ {
		doc.aname[i], doc.apfx[i], doc.auri[i], doc.aval[i] = []int{2}, []int{0}, []int{0}, []int{1}
		doc.mChild[i], doc.mNext[i], doc.mPrev[i], doc.mParent[i] = -2, -2, -2, -2
	}
	return doc
}
