//go:build verif

package xpath

import (
	"os"
	"testing"
)

// TestVerifReplay runs the harness cases listed in $VERIF_REPLAY_IN natively
// and writes what the real package did to $VERIF_REPLAY_OUT.
func TestVerifReplay(t *testing.T) {
	in, out := os.Getenv("VERIF_REPLAY_IN"), os.Getenv("VERIF_REPLAY_OUT")
	if in == "" || out == "" {
		t.Skip("VERIF_REPLAY_IN / VERIF_REPLAY_OUT not set")
	}
	if err := vRunFile(in, out); err != nil {
		t.Fatal(err)
	}
}
